// c13.hpp - dimension descriptors: model list of descriptors, checked after every step
#pragma once

namespace c13 {

using nix::DataType;
using nix::NDSize;

enum class DK { Set, Sampled, Range, Alias, Frame };

struct DM {
    DK kind;
    double interval = 1.0;
    double offset = 0.0; // none == 0.0
    std::vector<double> ticks;
    std::vector<std::string> labels;
    boost::optional<std::string> label, unit;
    boost::optional<unsigned> col;
    int frame = 0;
};

static const char *dkName(DK k) {
    switch (k) {
    case DK::Set: return "set";
    case DK::Sampled: return "sampled";
    case DK::Range: return "range";
    case DK::Alias: return "alias";
    default: return "frame";
    }
}

static std::string genUnit(Tape &t, bool &legal) {
    static const char *good[] = {"s", "ms", "mV", "Hz", "kHz", "m", "uA", "K", "mol", "nS", "dB", "rad", "%"};
    static const char *bad[] = {"foo", "sec", "mVolt", "m/s", "V*s", "10", "mS/cm", " ", "s "};
    if (t.chance(75)) {
        legal = true;
        return good[t.below(sizeof good / sizeof good[0])];
    }
    legal = false;
    return bad[t.below(sizeof bad / sizeof bad[0])];
}

static std::string genLabel(Tape &t) {
    static const char *pool[] = {"time", "x", "", "a b", "\xc3\xa4", "label/with/slash", "..", "L"};
    return pool[t.below(sizeof pool / sizeof pool[0])];
}

static std::vector<double> genTicks(Tape &t, bool &sorted, bool integral) {
    size_t n = t.below(8); // 0 = empty (illegal for append)
    std::vector<double> v;
    double x = integral ? static_cast<double>(t.range(-5, 5)) : (t.unit() - 0.5) * 20.0;
    for (size_t i = 0; i < n; i++) {
        v.push_back(x);
        x += integral ? static_cast<double>(t.range(0, 3)) : t.unit() * 2.0;
    }
    sorted = true;
    if (n >= 2 && t.chance(25)) {
        std::swap(v[t.below(static_cast<uint32_t>(n))], v[t.below(static_cast<uint32_t>(n))]);
        sorted = std::is_sorted(v.begin(), v.end());
    }
    return v;
}

static std::string vstr(const std::vector<double> &v) {
    std::string s = "[";
    for (size_t i = 0; i < v.size(); i++) s += (i ? "," : "") + dstr(v[i]);
    return s + "]";
}

template <typename A, typename B> static bool optEq(const boost::optional<A> &a, const boost::optional<B> &b) {
    if (static_cast<bool>(a) != static_cast<bool>(b)) return false;
    return !a || *a == *b;
}

struct State {
    std::string path;
    nix::File file;
    nix::Block block;
    nix::DataArray da;
    nix::DataFrame frames[2];
    std::vector<DM> model;
    DataType dt;
    size_t rank;
    // the array's own label / unit / data (for the alias checks)
    boost::optional<std::string> alabel, aunit;
    std::vector<double> adata;

    void open(bool create) {
        if (create) file = nix::File::open(path, nix::FileMode::Overwrite);
        else file = nix::File::open(path, nix::FileMode::ReadWrite);
        block = create ? file.createBlock("b", "t") : file.getBlock("b");
    }
    void reload() {
        da = block.getDataArray("a");
        frames[0] = block.getDataFrame("f0");
        frames[1] = block.getDataFrame("f1");
    }
};

static void checkAll(State &s, const char *when) {
    nix::DataArray &da = s.da;
    const std::vector<DM> &m = s.model;
    VCHECK(da.dimensionCount() == m.size(), when << ": dimensionCount() = " << da.dimensionCount() << ", model has " << m.size());
    nix::Dimension d0 = da.getDimension(0);
    VCHECK(!d0, when << ": getDimension(0) is not none");
    nix::Dimension dn = da.getDimension(m.size() + 1);
    VCHECK(!dn, when << ": getDimension(count+1) is not none");
    std::vector<nix::Dimension> all = da.dimensions();
    VCHECK(all.size() == m.size(), when << ": dimensions() returns " << all.size() << " descriptors, model has " << m.size());
    for (size_t k = 0; k < m.size(); k++) {
        nix::Dimension d = da.getDimension(k + 1);
        VCHECK(static_cast<bool>(d), when << ": getDimension(" << (k + 1) << ") is none (gap)");
        VCHECK(d.index() == k + 1, when << ": descriptor " << (k + 1) << " reports index " << d.index());
        VCHECK(all[k].index() == k + 1, when << ": dimensions()[" << k << "] reports index " << all[k].index());
        const DM &e = m[k];
        nix::DimensionType want = e.kind == DK::Set ? nix::DimensionType::Set
                                  : e.kind == DK::Sampled ? nix::DimensionType::Sample
                                  : e.kind == DK::Frame ? nix::DimensionType::DataFrame
                                                        : nix::DimensionType::Range;
        VCHECK(d.dimensionType() == want, when << ": descriptor " << (k + 1) << " has kind " << nix::util::dimTypeToStr(d.dimensionType()) << ", appended as "
                                               << dkName(e.kind));
        VCHECK(all[k].dimensionType() == want, when << ": dimensions()[" << k << "] has a different kind");
        if (e.kind == DK::Set) {
            nix::SetDimension sd = d.asSetDimension();
            VCHECK(sd.labels() == e.labels, when << ": set descriptor " << (k + 1) << " labels differ (" << sd.labels().size() << " vs " << e.labels.size() << ")");
            VCHECK(optEq(sd.label(), e.label), when << ": set descriptor " << (k + 1) << " label differs");
        } else if (e.kind == DK::Sampled) {
            nix::SampledDimension sd = d.asSampledDimension();
            VCHECK(sd.samplingInterval() == e.interval, when << ": sampled descriptor " << (k + 1) << " interval " << dstr(sd.samplingInterval()) << ", given "
                                                             << dstr(e.interval));
            VCHECK(sd.samplingInterval() > 0.0, when << ": sampled descriptor " << (k + 1) << " has the non-positive interval " << dstr(sd.samplingInterval()));
            double off = sd.offset() ? *sd.offset() : 0.0;
            VCHECK(off == e.offset, when << ": sampled descriptor " << (k + 1) << " offset " << dstr(off) << ", given " << dstr(e.offset));
            VCHECK(optEq(sd.label(), e.label), when << ": sampled descriptor " << (k + 1) << " label differs");
            VCHECK(optEq(sd.unit(), e.unit), when << ": sampled descriptor " << (k + 1) << " unit reads " << (sd.unit() ? *sd.unit() : "<none>") << ", given "
                                                  << (e.unit ? *e.unit : "<none>"));
        } else if (e.kind == DK::Range) {
            nix::RangeDimension rd = d.asRangeDimension();
            VCHECK(!rd.alias(), when << ": range descriptor " << (k + 1) << " claims to be an alias");
            std::vector<double> tk = rd.ticks();
            VCHECK(tk == e.ticks, when << ": range descriptor " << (k + 1) << " ticks " << vstr(tk) << ", given " << vstr(e.ticks));
            VCHECK(std::is_sorted(tk.begin(), tk.end()), when << ": range descriptor " << (k + 1) << " holds ticks that are not ascending: " << vstr(tk));
            VCHECK(optEq(rd.label(), e.label), when << ": range descriptor " << (k + 1) << " label differs");
            VCHECK(optEq(rd.unit(), e.unit), when << ": range descriptor " << (k + 1) << " unit differs");
        } else if (e.kind == DK::Alias) {
            nix::RangeDimension rd = d.asRangeDimension();
            VCHECK(rd.alias(), when << ": alias descriptor does not report alias()");
            std::vector<double> tk = rd.ticks();
            std::vector<double> ad;
            da.getData(ad);
            VCHECK(tk == ad, when << ": alias ticks " << vstr(tk) << " differ from the array's data " << vstr(ad));
            VCHECK(tk == s.adata, when << ": alias ticks " << vstr(tk) << " differ from the data last written " << vstr(s.adata));
            VCHECK(optEq(rd.label(), da.label()) && optEq(rd.label(), s.alabel), when << ": alias label differs from the array's label");
            VCHECK(optEq(rd.unit(), da.unit()) && optEq(rd.unit(), s.aunit), when << ": alias unit differs from the array's unit");
        } else {
            nix::DataFrameDimension fd = d.asDataFrameDimension();
            VCHECK(optEq(fd.columnIndex(), e.col), when << ": data frame descriptor " << (k + 1) << " column index differs");
            nix::DataFrame f = fd.data();
            VCHECK(f && f.id() == s.frames[e.frame].id(), when << ": data frame descriptor " << (k + 1) << " points to another frame");
        }
    }
}

static void body(Tape &t, Ctx &ctx) {
    State s;
    s.path = ctx.path("c13.nix");
    static const DataType types[] = {DataType::Double, DataType::Float, DataType::Int32, DataType::Int64, DataType::UInt8, DataType::Int16,
                                     DataType::UInt32, DataType::Bool, DataType::String};
    s.dt = types[t.below(9)];
    s.rank = 1 + t.pick({5, 3, 2, 1});
    bool aliasCase = t.chance(35);
    if (aliasCase) s.rank = 1;
    bool integral = s.dt != DataType::Double && s.dt != DataType::Float;
    NDSize shape(s.rank, 3);
    s.open(true);
    s.da = s.block.createDataArray("a", "t", s.dt, shape);
    std::vector<nix::Column> c0 = {{"c0", "s", DataType::Double}, {"c1", "", DataType::Int32}, {"c2", "mV", DataType::String}};
    std::vector<nix::Column> c1 = {{"x", "", DataType::Double}};
    s.frames[0] = s.block.createDataFrame("f0", "t", c0);
    s.frames[1] = s.block.createDataFrame("f1", "t", c1);
    s.frames[0].rows(3);
    bool numeric = nix::data_type_is_numeric(s.dt);
    if (numeric) {
        s.adata.assign(3, 0.0);
    }
    ctx.trace << "C13 " << nix::data_type_to_string(s.dt) << " rank=" << s.rank << ": ";
    size_t kinds_seen = 0, mods_after_reopen = 0, reopens = 0, alias_dim_writes = 0, alias_arr_writes = 0, rejected = 0;
    std::set<int> kindset;
    size_t nops = 1 + t.below(30);
    for (size_t op = 0; op < nops; op++) {
        if (op > 0 && t.exhausted()) break;
        size_t kind = t.pick({10, 8, 2, 3, aliasCase ? 10u : 2u, aliasCase ? 6u : 0u});
        try {
            if (kind == 0) {
                // ---- append ---------------------------------------------------------------
                if (s.model.size() >= 6) continue;
                DM e;
                size_t which = t.pick({3, 4, 4, aliasCase ? 6u : 1u, 2});
                bool dep = t.chance(20); // deprecated create* spelling
                if (which == 0) {
                    e.kind = DK::Set;
                    size_t n = t.below(5);
                    for (size_t i = 0; i < n; i++) e.labels.push_back(genLabel(t) + std::to_string(i));
                    ctx.trace << "appendSet(" << n << (dep ? ",dep" : "") << ") ";
                    if (dep) {
                        s.da.createSetDimension(s.model.size() + 1);
                        e.labels.clear();
                    } else s.da.appendSetDimension(e.labels);
                } else if (which == 1) {
                    e.kind = DK::Sampled;
                    switch (t.pick({8, 1, 1, 1})) {
                    case 0: e.interval = genInterval(t); break;
                    case 1: e.interval = 0.0; break;
                    case 2: e.interval = -1.0; break;
                    default: e.interval = -genInterval(t); break;
                    }
                    std::string lab = genLabel(t);
                    bool legal = true;
                    std::string unit = t.chance(60) ? genUnit(t, legal) : "";
                    switch (t.pick({3, 2, 2, 2})) {
                    case 0: e.offset = 0.0; break;
                    case 1: e.offset = -1.5; break;
                    case 2: e.offset = (t.unit() - 0.5) * 100.0; break;
                    default: e.offset = static_cast<double>(t.range(-3, 3)); break;
                    }
                    ctx.trace << "appendSampled(" << dstr(e.interval) << "," << show(lab) << "," << show(unit) << "," << dstr(e.offset) << (dep ? ",dep" : "") << ") ";
                    if (!lab.empty()) e.label = lab;
                    if (!unit.empty()) e.unit = unit;
                    if (dep) {
                        s.da.createSampledDimension(s.model.size() + 1, e.interval);
                        e.label = boost::none;
                        e.unit = boost::none;
                        e.offset = 0.0;
                    } else s.da.appendSampledDimension(e.interval, lab, unit, e.offset);
                } else if (which == 2) {
                    e.kind = DK::Range;
                    bool sorted;
                    e.ticks = genTicks(t, sorted, false);
                    std::string lab = genLabel(t);
                    bool legal = true;
                    std::string unit = t.chance(50) ? genUnit(t, legal) : "";
                    ctx.trace << "appendRange(" << vstr(e.ticks) << "," << show(lab) << "," << show(unit) << (dep ? ",dep" : "") << ") ";
                    if (!lab.empty()) e.label = lab;
                    if (!unit.empty()) e.unit = unit;
                    if (dep) {
                        s.da.createRangeDimension(s.model.size() + 1, e.ticks);
                        e.label = boost::none;
                        e.unit = boost::none;
                    } else s.da.appendRangeDimension(e.ticks, lab, unit);
                } else if (which == 3) {
                    e.kind = DK::Alias;
                    ctx.trace << "appendAlias" << (dep ? "(dep) " : " ");
                    bool allowed = s.rank == 1 && numeric && s.model.empty() &&
                                   (!s.aunit || nix::util::isSIUnit(*s.aunit) || nix::util::isCompoundSIUnit(*s.aunit));
                    try {
                        if (dep) s.da.createAliasRangeDimension(); else s.da.appendAliasRangeDimension();
                    } catch (const std::exception &) {
                        if (!allowed) ctx.count("alias_precondition_refused");
                        throw;
                    }
                    VCHECK(allowed, "alias range dimension accepted although its preconditions (1-D, numeric, SI unit, only dimension) do not hold");
                } else {
                    e.kind = DK::Frame;
                    e.frame = static_cast<int>(t.below(2));
                    size_t how = t.below(3);
                    ctx.trace << "appendFrame(f" << e.frame << ",how=" << how << ") ";
                    if (how == 0) s.da.appendDataFrameDimension(s.frames[e.frame]);
                    else if (how == 1) {
                        unsigned c = t.below(e.frame == 0 ? 3 : 1);
                        e.col = c;
                        s.da.appendDataFrameDimension(s.frames[e.frame], c);
                    } else {
                        std::string cn = e.frame == 0 ? "c1" : "x";
                        e.col = e.frame == 0 ? 1u : 0u;
                        s.da.appendDataFrameDimension(s.frames[e.frame], cn);
                    }
                }
                s.model.push_back(e);
                kindset.insert(static_cast<int>(e.kind));
            } else if (kind == 1) {
                // ---- modify descriptor k -----------------------------------------------------
                if (s.model.empty()) continue;
                size_t k = t.below(static_cast<uint32_t>(s.model.size()));
                DM &e = s.model[k];
                nix::Dimension d = s.da.getDimension(k + 1);
                VCHECK(static_cast<bool>(d), "getDimension(" << (k + 1) << ") is none");
                ctx.trace << "mod" << (k + 1) << ":";
                if (e.kind == DK::Set) {
                    nix::SetDimension sd = d.asSetDimension();
                    switch (t.pick({3, 1, 2, 1})) {
                    case 0: {
                        std::vector<std::string> l;
                        size_t n = t.below(6);
                        for (size_t i = 0; i < n; i++) l.push_back(genLabel(t) + std::to_string(i));
                        ctx.trace << "labels(" << n << ") ";
                        sd.labels(l);
                        e.labels = l;
                        break;
                    }
                    case 1: ctx.trace << "labels(none) "; sd.labels(boost::none); e.labels.clear(); break;
                    case 2: { std::string l = genLabel(t); ctx.trace << "label(" << show(l) << ") "; sd.label(l); e.label = l; break; }
                    default: ctx.trace << "label(none) "; sd.label(nix::none); e.label = boost::none; break;
                    }
                } else if (e.kind == DK::Sampled) {
                    nix::SampledDimension sd = d.asSampledDimension();
                    switch (t.pick({3, 2, 1, 2, 1, 2, 1})) {
                    case 0: {
                        double iv;
                        switch (t.pick({6, 1, 1})) { case 0: iv = genInterval(t); break; case 1: iv = 0.0; break; default: iv = -0.5; break; }
                        ctx.trace << "interval(" << dstr(iv) << ") ";
                        sd.samplingInterval(iv);
                        e.interval = iv;
                        break;
                    }
                    case 1: { double o = t.chance(50) ? -2.25 : (t.unit() - 0.5) * 10.0; ctx.trace << "offset(" << dstr(o) << ") "; sd.offset(o); e.offset = o; break; }
                    case 2: ctx.trace << "offset(none) "; sd.offset(boost::none); e.offset = 0.0; break;
                    case 3: { bool legal; std::string u = genUnit(t, legal); ctx.trace << "unit(" << show(u) << ") "; sd.unit(u); e.unit = u; break; }
                    case 4: ctx.trace << "unit(none) "; sd.unit(nix::none); e.unit = boost::none; break;
                    case 5: { std::string l = genLabel(t); ctx.trace << "label(" << show(l) << ") "; sd.label(l); e.label = l; break; }
                    default: ctx.trace << "label(none) "; sd.label(nix::none); e.label = boost::none; break;
                    }
                } else if (e.kind == DK::Range) {
                    nix::RangeDimension rd = d.asRangeDimension();
                    switch (t.pick({4, 2, 1, 2, 1})) {
                    case 0: { bool sorted; std::vector<double> tk = genTicks(t, sorted, false); ctx.trace << "ticks(" << vstr(tk) << ") "; rd.ticks(tk); e.ticks = tk; break; }
                    case 1: { bool legal; std::string u = genUnit(t, legal); ctx.trace << "unit(" << show(u) << ") "; rd.unit(u); e.unit = u; break; }
                    case 2: ctx.trace << "unit(none) "; rd.unit(nix::none); e.unit = boost::none; break;
                    case 3: { std::string l = genLabel(t); ctx.trace << "label(" << show(l) << ") "; rd.label(l); e.label = l; break; }
                    default: ctx.trace << "label(none) "; rd.label(nix::none); e.label = boost::none; break;
                    }
                } else if (e.kind == DK::Alias) {
                    nix::RangeDimension rd = d.asRangeDimension();
                    switch (t.pick({5, 2, 2})) {
                    case 0: {
                        bool sorted;
                        std::vector<double> tk = genTicks(t, sorted, integral);
                        if (s.dt == DataType::UInt8 || s.dt == DataType::UInt32) for (auto &x : tk) x = std::fabs(x);
                        if (s.dt == DataType::Float) for (auto &x : tk) x = static_cast<double>(static_cast<float>(x));
                        std::sort(tk.begin(), tk.end()); // the unsigned / float adjustments may reorder
                        if (!sorted && tk.size() >= 2) std::swap(tk.front(), tk.back());
                        ctx.trace << "alias.ticks(" << vstr(tk) << ") ";
                        rd.ticks(tk);
                        s.adata = tk;
                        alias_dim_writes++;
                        break;
                    }
                    case 1: { bool legal; std::string u = genUnit(t, legal); ctx.trace << "alias.unit(" << show(u) << ") "; rd.unit(u); s.aunit = u; break; }
                    default: { std::string l = genLabel(t); ctx.trace << "alias.label(" << show(l) << ") "; rd.label(l); s.alabel = l; break; }
                    }
                } else {
                    ctx.trace << "frame(no setter) ";
                }
                if (reopens) mods_after_reopen++;
            } else if (kind == 2) {
                ctx.trace << "deleteDimensions ";
                bool r = s.da.deleteDimensions();
                VCHECK(r, "deleteDimensions() returned false");
                s.model.clear();
            } else if (kind == 3) {
                bool ro = t.flip();
                ctx.trace << "reopen(" << (ro ? "ro" : "rw") << ") ";
                s.file.close();
                if (ro) {
                    s.file = nix::File::open(s.path, nix::FileMode::ReadOnly);
                    s.block = s.file.getBlock("b");
                    s.reload();
                    checkAll(s, "after ReadOnly reopen");
                    s.file.close();
                }
                s.open(false);
                s.reload();
                reopens++;
            } else if (kind == 4) {
                // ---- writes through the array (mirror side of an alias) -----------------------
                switch (t.pick({3, 2, 2, 1})) {
                case 0: {
                    if (!numeric || s.rank != 1) break;
                    bool sorted;
                    std::vector<double> v = genTicks(t, sorted, integral);
                    if (s.dt == DataType::UInt8 || s.dt == DataType::UInt32) for (auto &x : v) x = std::fabs(x);
                    if (s.dt == DataType::Float) for (auto &x : v) x = static_cast<double>(static_cast<float>(x));
                    if (v.empty()) break;
                    std::sort(v.begin(), v.end()); // an alias axis is a range axis: keep it ascending
                    ctx.trace << "array.setData(" << vstr(v) << ") ";
                    s.da.setData(v);
                    s.adata = v;
                    alias_arr_writes++;
                    break;
                }
                case 1: { bool legal; std::string u = genUnit(t, legal); ctx.trace << "array.unit(" << show(u) << ") "; s.da.unit(u); s.aunit = u; break; }
                case 2: { std::string l = genLabel(t); ctx.trace << "array.label(" << show(l) << ") "; s.da.label(l); s.alabel = l; break; }
                default: ctx.trace << "array.label(none) "; s.da.label(nix::none); s.alabel = boost::none; break;
                }
            } else {
                // second alias attempt / alias on an array that already has dimensions
                ctx.trace << "appendAlias(again) ";
                bool allowed = s.rank == 1 && numeric && s.model.empty() &&
                               (!s.aunit || nix::util::isSIUnit(*s.aunit) || nix::util::isCompoundSIUnit(*s.aunit));
                s.da.appendAliasRangeDimension();
                VCHECK(allowed, "a second / late alias range dimension was accepted");
                DM e;
                e.kind = DK::Alias;
                s.model.push_back(e);
                kindset.insert(static_cast<int>(DK::Alias));
            }
        } catch (const Violation &) {
            throw;
        } catch (const std::exception &e) {
            ctx.trace << "[threw " << typeid(e).name() << "] ";
            rejected++;
        }
        checkAll(s, "after step");
    }
    s.file.close();
    s.file = nix::File::open(s.path, nix::FileMode::ReadOnly);
    s.block = s.file.getBlock("b");
    s.reload();
    checkAll(s, "after the final reopen");
    s.file.close();
    kinds_seen = kindset.size();
    for (int k : kindset) ctx.count(std::string("kind_") + dkName(static_cast<DK>(k)));
    if (rejected) ctx.count("cases_with_rejection");
    ctx.nontrivial = (s.model.size() >= 3 && kinds_seen >= 2 && mods_after_reopen >= 1) || (alias_dim_writes >= 1 && alias_arr_writes >= 1);
    if (alias_dim_writes && alias_arr_writes) ctx.count("alias_written_from_both_sides");
}

} // namespace c13
