// snapshot.hpp - the complete observable state of a nix::File as a canonical tree, read through
// public getters only. Used by C02 C04 C08 C09 C11 C12 C20 (and C03 for the container views).
#pragma once
#include "common.hpp"
#include "nixutil.hpp"

namespace vf {

struct Ent {
    std::string kind;  // file block array frame tag mtag group source section property feature dim
    std::string id;    // entity id ("" for dims / file header uses file id)
    std::string name;
    std::vector<std::pair<std::string, std::string>> attrs;                  // scalar attributes
    std::vector<std::pair<std::string, std::string>> links;                  // single links -> target id or <absent>
    std::vector<std::pair<std::string, std::vector<std::string>>> lists;     // ordered id lists
    std::vector<std::pair<std::string, std::vector<Ent>>> kids;              // ordered child containers
};

static const char *ABSENT = "<absent>";

template <typename F> static std::string guard(F f) {
    try {
        return f();
    } catch (const std::exception &e) {
        return std::string("<throws>");
    }
}

inline std::string optS(const boost::optional<std::string> &o) { return o ? "=" + *o : "<none>"; }
inline std::string optD(const boost::optional<double> &o) { return o ? "=" + dstr(*o) : "<none>"; }
inline std::string vecD(const std::vector<double> &v) {
    std::string s = "[";
    for (size_t i = 0; i < v.size(); i++) s += (i ? "," : "") + dstr(v[i]);
    return s + "]";
}
inline std::string vecS(const std::vector<std::string> &v) {
    std::string s = "[";
    for (size_t i = 0; i < v.size(); i++) s += (i ? "," : "") + show(v[i]);
    return s + "]";
}

inline std::string variantStr(const nix::Variant &a) {
    std::ostringstream os;
    switch (a.type()) {
    case nix::DataType::Bool: os << "b:" << (a.get<bool>() ? 1 : 0); break;
    case nix::DataType::Int32: os << "i32:" << a.get<int32_t>(); break;
    case nix::DataType::UInt32: os << "u32:" << a.get<uint32_t>(); break;
    case nix::DataType::Int64: os << "i64:" << a.get<int64_t>(); break;
    case nix::DataType::UInt64: os << "u64:" << a.get<uint64_t>(); break;
    case nix::DataType::Double: os << "d:" << dstr(a.get<double>()); break;
    case nix::DataType::String: os << "s:" << show(a.get<std::string>()); break;
    default: os << "nothing";
    }
    return os.str();
}

// every element of an array, as a string: numeric types are read with their own type
inline std::string arrayData(const nix::DataArray &da) {
    nix::NDSize ext = da.dataExtent();
    nix::DataType dt = da.dataType();
    uint64_t n = ext.size() ? 1 : 0;
    for (size_t i = 0; i < ext.size(); i++) n *= ext[i];
    if (n == 0) return "[]";
    if (n > 100000) return "<large>";
    nix::NDSize off(ext.size(), 0);
    std::ostringstream os;
    os << "[";
    auto num = [&](auto proto) {
        typedef decltype(proto) T;
        std::vector<T> b(n);
        da.getDataDirect(dt, b.data(), ext, off);
        for (uint64_t i = 0; i < n; i++) {
            if (i) os << ",";
            if (std::is_floating_point<T>::value) os << dstr(static_cast<double>(b[i]));
            else if (std::is_signed<T>::value) os << static_cast<long long>(b[i]);
            else os << static_cast<unsigned long long>(b[i]);
        }
    };
    switch (dt) {
    case nix::DataType::Bool: {
        std::unique_ptr<bool[]> b(new bool[n]);
        da.getDataDirect(dt, b.get(), ext, off);
        for (uint64_t i = 0; i < n; i++) os << (i ? "," : "") << (b[i] ? 1 : 0);
        break;
    }
    case nix::DataType::Int8: num(int8_t()); break;
    case nix::DataType::Int16: num(int16_t()); break;
    case nix::DataType::Int32: num(int32_t()); break;
    case nix::DataType::Int64: num(int64_t()); break;
    case nix::DataType::UInt8: num(uint8_t()); break;
    case nix::DataType::UInt16: num(uint16_t()); break;
    case nix::DataType::UInt32: num(uint32_t()); break;
    case nix::DataType::UInt64: num(uint64_t()); break;
    case nix::DataType::Float: num(float()); break;
    case nix::DataType::Double: num(double()); break;
    case nix::DataType::String: {
        std::vector<std::string> b(n);
        da.getDataDirect(dt, b.data(), ext, off);
        for (uint64_t i = 0; i < n; i++) os << (i ? "," : "") << show(b[i]);
        break;
    }
    default: os << "<type " << static_cast<int>(dt) << ">";
    }
    os << "]";
    return os.str();
}

inline std::string ndStr(const nix::NDSize &s) {
    std::string r = "{";
    for (size_t i = 0; i < s.size(); i++) r += (i ? "," : "") + std::to_string(s[i]);
    return r + "}";
}

template <typename E> static void namedAttrs(Ent &e, const E &x) {
    e.id = guard([&] { return x.id(); });
    e.name = guard([&] { return x.name(); });
    e.attrs.emplace_back("type", guard([&] { return x.type(); }));
    e.attrs.emplace_back("definition", guard([&] { return optS(x.definition()); }));
    e.attrs.emplace_back("created_at", guard([&] { return std::to_string(static_cast<long long>(x.createdAt())); }));
}

template <typename E> static void metaLink(Ent &e, const E &x) {
    e.links.emplace_back("metadata", guard([&] {
                             nix::Section s = x.metadata();
                             return s ? s.id() : std::string(ABSENT);
                         }));
}
static std::string normLink(const std::string &v) { return v == "<throws>" ? std::string(ABSENT) : v; }

template <typename E> static void sourceList(Ent &e, const E &x) {
    std::vector<std::string> ids;
    try {
        size_t n = x.sourceCount();
        for (size_t i = 0; i < n; i++) {
            nix::Source s = x.getSource(i);
            ids.push_back(s ? s.id() : std::string("<none>"));
        }
    } catch (const std::exception &) {
        ids.push_back("<throws>");
    }
    e.lists.emplace_back("sources", ids);
}

inline Ent snapDim(const nix::Dimension &d) {
    Ent e;
    e.kind = "dim";
    try {
        e.attrs.emplace_back("index", std::to_string(d.index()));
        e.attrs.emplace_back("dimtype", nix::util::dimTypeToStr(d.dimensionType()));
        switch (d.dimensionType()) {
        case nix::DimensionType::Sample: {
            nix::SampledDimension s = d.asSampledDimension();
            e.attrs.emplace_back("interval", dstr(s.samplingInterval()));
            e.attrs.emplace_back("offset", optD(s.offset()));
            e.attrs.emplace_back("label", optS(s.label()));
            e.attrs.emplace_back("unit", optS(s.unit()));
            break;
        }
        case nix::DimensionType::Set: {
            nix::SetDimension s = d.asSetDimension();
            e.attrs.emplace_back("labels", vecS(s.labels()));
            e.attrs.emplace_back("label", optS(s.label()));
            break;
        }
        case nix::DimensionType::Range: {
            nix::RangeDimension r = d.asRangeDimension();
            e.attrs.emplace_back("alias", r.alias() ? "1" : "0");
            e.attrs.emplace_back("ticks", guard([&] { return vecD(r.ticks()); }));
            e.attrs.emplace_back("label", optS(r.label()));
            e.attrs.emplace_back("unit", optS(r.unit()));
            break;
        }
        case nix::DimensionType::DataFrame: {
            nix::DataFrameDimension f = d.asDataFrameDimension();
            boost::optional<unsigned> ci = f.columnIndex();
            e.attrs.emplace_back("column", ci ? std::to_string(*ci) : "<none>");
            e.links.emplace_back("data_frame", normLink(guard([&] {
                                     nix::DataFrame df = f.data();
                                     return (df && df.isValidEntity()) ? df.id() : std::string(ABSENT);
                                 })));
            break;
        }
        }
    } catch (const std::exception &ex) {
        e.attrs.emplace_back("error", "<throws>");
    }
    return e;
}

inline Ent snapArray(const nix::DataArray &a) {
    Ent e;
    e.kind = "array";
    namedAttrs(e, a);
    e.attrs.emplace_back("label", guard([&] { return optS(a.label()); }));
    e.attrs.emplace_back("unit", guard([&] { return optS(a.unit()); }));
    e.attrs.emplace_back("origin", guard([&] { return optD(a.expansionOrigin()); }));
    e.attrs.emplace_back("polynom", guard([&] { return vecD(a.polynomCoefficients()); }));
    e.attrs.emplace_back("dtype", guard([&] { return nix::data_type_to_string(a.dataType()); }));
    e.attrs.emplace_back("extent", guard([&] { return ndStr(a.dataExtent()); }));
    e.attrs.emplace_back("data", guard([&] { return arrayData(a); }));
    metaLink(e, a);
    sourceList(e, a);
    std::vector<Ent> dims;
    try {
        size_t n = a.dimensionCount();
        for (size_t i = 1; i <= n; i++) {
            nix::Dimension d = a.getDimension(i);
            if (d) dims.push_back(snapDim(d));
            else {
                Ent g;
                g.kind = "dim";
                g.attrs.emplace_back("gap", std::to_string(i));
                dims.push_back(g);
            }
        }
    } catch (const std::exception &) {
        e.attrs.emplace_back("dimensions", "<throws>");
    }
    e.kids.emplace_back("dimensions", dims);
    return e;
}

inline Ent snapFrame(nix::DataFrame f) {
    Ent e;
    e.kind = "frame";
    namedAttrs(e, f);
    e.attrs.emplace_back("columns", guard([&] {
                             std::string s;
                             for (auto &c : f.columns()) s += show(c.name) + ":" + show(c.unit) + ":" + nix::data_type_to_string(c.dtype) + ";";
                             return s;
                         }));
    e.attrs.emplace_back("rows", guard([&] { return std::to_string(f.rows()); }));
    e.attrs.emplace_back("cells", guard([&] {
                             std::string s;
                             nix::ndsize_t n = f.rows();
                             if (n > 2000) return std::string("<large>");
                             for (nix::ndsize_t r = 0; r < n; r++) {
                                 for (auto &v : f.readRow(r)) s += variantStr(v) + ",";
                                 s += ";";
                             }
                             return s;
                         }));
    metaLink(e, f);
    sourceList(e, f);
    return e;
}

inline Ent snapFeature(const nix::Feature &f) {
    Ent e;
    e.kind = "feature";
    e.id = guard([&] { return f.id(); });
    e.attrs.emplace_back("link_type", guard([&] { return nix::link_type_to_string(f.linkType()); }));
    e.attrs.emplace_back("created_at", guard([&] { return std::to_string(static_cast<long long>(f.createdAt())); }));
    e.links.emplace_back("data", normLink(guard([&] {
                             nix::DataArray d = f.data();
                             return d ? d.id() : std::string(ABSENT);
                         })));
    return e;
}

template <typename T> static void tagCommon(Ent &e, const T &t) {
    namedAttrs(e, t);
    e.attrs.emplace_back("units", guard([&] { return vecS(t.units()); }));
    metaLink(e, t);
    sourceList(e, t);
    std::vector<std::string> refs;
    try {
        size_t n = t.referenceCount();
        for (size_t i = 0; i < n; i++) {
            nix::DataArray a = t.getReference(i);
            refs.push_back(a ? a.id() : std::string("<none>"));
        }
    } catch (const std::exception &) {
        refs.push_back("<throws>");
    }
    e.lists.emplace_back("references", refs);
    std::vector<Ent> feats;
    try {
        size_t n = t.featureCount();
        for (size_t i = 0; i < n; i++) {
            nix::Feature f = t.getFeature(i);
            if (f) feats.push_back(snapFeature(f));
        }
        if (feats.size() != n) e.attrs.emplace_back("feature_count_mismatch", std::to_string(n));
    } catch (const std::exception &) {
        e.attrs.emplace_back("features", "<throws>");
    }
    e.kids.emplace_back("features", feats);
}

inline Ent snapTag(const nix::Tag &t) {
    Ent e;
    e.kind = "tag";
    tagCommon(e, t);
    e.attrs.emplace_back("position", guard([&] { return vecD(t.position()); }));
    e.attrs.emplace_back("extent", guard([&] { return vecD(t.extent()); }));
    return e;
}

inline Ent snapMultiTag(const nix::MultiTag &t) {
    Ent e;
    e.kind = "mtag";
    tagCommon(e, t);
    e.links.emplace_back("positions", normLink(guard([&] {
                             nix::DataArray a = t.positions();
                             return a ? a.id() : std::string(ABSENT);
                         })));
    e.links.emplace_back("extents", normLink(guard([&] {
                             nix::DataArray a = t.extents();
                             return a ? a.id() : std::string(ABSENT);
                         })));
    return e;
}

inline Ent snapSource(const nix::Source &s) {
    Ent e;
    e.kind = "source";
    namedAttrs(e, s);
    metaLink(e, s);
    std::vector<Ent> kids;
    try {
        size_t n = s.sourceCount();
        for (size_t i = 0; i < n; i++) {
            nix::Source c = s.getSource(i);
            if (c) kids.push_back(snapSource(c));
        }
        if (kids.size() != n) e.attrs.emplace_back("source_count_mismatch", std::to_string(n));
    } catch (const std::exception &) {
        e.attrs.emplace_back("sources", "<throws>");
    }
    e.kids.emplace_back("sources", kids);
    return e;
}

inline Ent snapGroup(const nix::Group &g) {
    Ent e;
    e.kind = "group";
    namedAttrs(e, g);
    metaLink(e, g);
    sourceList(e, g);
    auto members = [&](const char *name, size_t n, std::function<std::string(size_t)> get) {
        std::vector<std::string> ids;
        try {
            for (size_t i = 0; i < n; i++) ids.push_back(get(i));
        } catch (const std::exception &) {
            ids.push_back("<throws>");
        }
        e.lists.emplace_back(name, ids);
    };
    try {
        members("arrays", g.dataArrayCount(), [&](size_t i) { auto x = g.getDataArray(i); return x ? x.id() : std::string("<none>"); });
        members("frames", g.dataFrameCount(), [&](size_t i) { auto x = g.getDataFrame(i); return x ? x.id() : std::string("<none>"); });
        members("tags", g.tagCount(), [&](size_t i) { auto x = g.getTag(i); return x ? x.id() : std::string("<none>"); });
        members("mtags", g.multiTagCount(), [&](size_t i) { auto x = g.getMultiTag(i); return x ? x.id() : std::string("<none>"); });
    } catch (const std::exception &) {
        e.attrs.emplace_back("members", "<throws>");
    }
    return e;
}

inline Ent snapProperty(const nix::Property &p) {
    Ent e;
    e.kind = "property";
    e.id = guard([&] { return p.id(); });
    e.name = guard([&] { return p.name(); });
    e.attrs.emplace_back("definition", guard([&] { return optS(p.definition()); }));
    e.attrs.emplace_back("created_at", guard([&] { return std::to_string(static_cast<long long>(p.createdAt())); }));
    e.attrs.emplace_back("dtype", guard([&] { return nix::data_type_to_string(p.dataType()); }));
    e.attrs.emplace_back("unit", guard([&] { return optS(p.unit()); }));
    e.attrs.emplace_back("uncertainty", guard([&] { return optD(p.uncertainty()); }));
    e.attrs.emplace_back("value_count", guard([&] { return std::to_string(p.valueCount()); }));
    e.attrs.emplace_back("values", guard([&] {
                             std::string s;
                             for (auto &v : p.values()) s += variantStr(v) + ",";
                             return s;
                         }));
    return e;
}

inline Ent snapSection(const nix::Section &s) {
    Ent e;
    e.kind = "section";
    namedAttrs(e, s);
    e.attrs.emplace_back("repository", guard([&] { return optS(s.repository()); }));
    e.links.emplace_back("link", normLink(guard([&] {
                             nix::Section l = s.link();
                             return l ? l.id() : std::string(ABSENT);
                         })));
    std::vector<Ent> props, kids;
    try {
        size_t n = s.propertyCount();
        for (size_t i = 0; i < n; i++) {
            nix::Property p = s.getProperty(i);
            if (p) props.push_back(snapProperty(p));
        }
        if (props.size() != n) e.attrs.emplace_back("property_count_mismatch", std::to_string(n));
    } catch (const std::exception &) {
        e.attrs.emplace_back("properties", "<throws>");
    }
    try {
        size_t n = s.sectionCount();
        for (size_t i = 0; i < n; i++) {
            nix::Section c = s.getSection(i);
            if (c) kids.push_back(snapSection(c));
        }
        if (kids.size() != n) e.attrs.emplace_back("section_count_mismatch", std::to_string(n));
    } catch (const std::exception &) {
        e.attrs.emplace_back("sections", "<throws>");
    }
    e.kids.emplace_back("properties", props);
    e.kids.emplace_back("sections", kids);
    return e;
}

inline Ent snapBlock(const nix::Block &b) {
    Ent e;
    e.kind = "block";
    namedAttrs(e, b);
    metaLink(e, b);
    auto kids = [&](const char *name, std::function<size_t()> count, std::function<Ent(size_t)> get) {
        std::vector<Ent> v;
        try {
            size_t n = count();
            for (size_t i = 0; i < n; i++) v.push_back(get(i));
        } catch (const std::exception &) {
            e.attrs.emplace_back(name, "<throws>");
        }
        e.kids.emplace_back(name, v);
    };
    kids("arrays", [&] { return b.dataArrayCount(); }, [&](size_t i) { return snapArray(b.getDataArray(i)); });
    kids("frames", [&] { return b.dataFrameCount(); }, [&](size_t i) { return snapFrame(b.getDataFrame(i)); });
    kids("tags", [&] { return b.tagCount(); }, [&](size_t i) { return snapTag(b.getTag(i)); });
    kids("mtags", [&] { return b.multiTagCount(); }, [&](size_t i) { return snapMultiTag(b.getMultiTag(i)); });
    kids("groups", [&] { return b.groupCount(); }, [&](size_t i) { return snapGroup(b.getGroup(i)); });
    kids("sources", [&] { return b.sourceCount(); }, [&](size_t i) { return snapSource(b.getSource(i)); });
    return e;
}

inline Ent snapshot(const nix::File &f) {
    Ent e;
    e.kind = "file";
    e.id = guard([&] { return f.id(); });
    e.attrs.emplace_back("format", guard([&] { return f.format(); }));
    e.attrs.emplace_back("version", guard([&] {
                             std::string s;
                             for (int v : f.version()) s += std::to_string(v) + ".";
                             return s;
                         }));
    e.attrs.emplace_back("created_at", guard([&] { return std::to_string(static_cast<long long>(f.createdAt())); }));
    std::vector<Ent> blocks, sections;
    try {
        size_t n = f.blockCount();
        for (size_t i = 0; i < n; i++) blocks.push_back(snapBlock(f.getBlock(i)));
    } catch (const std::exception &) {
        e.attrs.emplace_back("blocks", "<throws>");
    }
    try {
        size_t n = f.sectionCount();
        for (size_t i = 0; i < n; i++) sections.push_back(snapSection(f.getSection(i)));
    } catch (const std::exception &) {
        e.attrs.emplace_back("sections", "<throws>");
    }
    e.kids.emplace_back("blocks", blocks);
    e.kids.emplace_back("sections", sections);
    return e;
}

// ---------------------------------------------------------------------------------------
// flatten / compare
inline void flatten(const Ent &e, const std::string &path, std::vector<std::pair<std::string, std::string>> &out) {
    std::string p = path + "/" + e.kind + "(" + show(e.name) + ")";
    out.emplace_back(p + "#id", e.id);
    for (auto &a : e.attrs) out.emplace_back(p + "." + a.first, a.second);
    for (auto &l : e.links) out.emplace_back(p + "->" + l.first, l.second);
    for (auto &l : e.lists) {
        std::string s;
        for (auto &x : l.second) s += x + ",";
        out.emplace_back(p + "*" + l.first, s);
    }
    for (auto &k : e.kids) {
        out.emplace_back(p + "[" + k.first + "]#n", std::to_string(k.second.size()));
        for (size_t i = 0; i < k.second.size(); i++) flatten(k.second[i], p + "[" + k.first + ":" + std::to_string(i) + "]", out);
    }
}

inline std::string flatStr(const Ent &e) {
    std::vector<std::pair<std::string, std::string>> v;
    flatten(e, "", v);
    std::string s;
    for (auto &kv : v) s += kv.first + " = " + kv.second + "\n";
    return s;
}

// "" if equal, else a description of the first difference
inline std::string diff(const Ent &a, const Ent &b) {
    std::vector<std::pair<std::string, std::string>> x, y;
    flatten(a, "", x);
    flatten(b, "", y);
    size_t n = std::min(x.size(), y.size());
    for (size_t i = 0; i < n; i++) {
        if (x[i] != y[i]) {
            std::string s = "first difference at entry " + std::to_string(i) + ": " + x[i].first + " = " + x[i].second.substr(0, 300) + "   VERSUS   " + y[i].first + " = " +
                            y[i].second.substr(0, 300);
            return s;
        }
    }
    if (x.size() != y.size()) {
        const auto &l = x.size() > y.size() ? x : y;
        return std::string("one side has ") + std::to_string(x.size()) + " entries, the other " + std::to_string(y.size()) + "; first extra: " + l[n].first + " = " +
               l[n].second.substr(0, 200);
    }
    return "";
}

inline size_t entityCount(const Ent &e) {
    size_t n = 1;
    for (auto &k : e.kids)
        for (auto &c : k.second) n += entityCount(c);
    return n;
}

template <typename F> static void walk(const Ent &e, F f) {
    f(e);
    for (auto &k : e.kids)
        for (auto &c : k.second) walk(c, f);
}
template <typename F> static void walkMut(Ent &e, F f) {
    f(e);
    for (auto &k : e.kids)
        for (auto &c : k.second) walkMut(c, f);
}

} // namespace vf
