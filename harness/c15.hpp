// c15.hpp - DataFrame cells through row, cell and column access against a model table
#pragma once

namespace c15 {

using nix::DataType;
using nix::Variant;
using c14::genValue;
using c14::veq;
using c14::vshow;

static Variant zeroOf(DataType dt) {
    switch (dt) {
    case DataType::Bool: return Variant(false);
    case DataType::Int32: return Variant(static_cast<int32_t>(0));
    case DataType::UInt32: return Variant(static_cast<uint32_t>(0));
    case DataType::Int64: return Variant(static_cast<int64_t>(0));
    case DataType::UInt64: return Variant(static_cast<uint64_t>(0));
    case DataType::Double: return Variant(0.0);
    default: return Variant(std::string());
    }
}

struct Table {
    std::vector<nix::Column> cols;
    std::vector<std::vector<Variant>> rows;
    void resize(size_t n) {
        std::vector<Variant> z;
        for (auto &c : cols) z.push_back(zeroOf(c.dtype));
        rows.resize(n, z);
    }
};

template <typename T> static void colRead(nix::DataFrame &df, const Table &m, unsigned c, Tape &t, const char *when) {
    // whole column with resize, then a window without resize
    std::vector<T> v;
    bool byName = t.flip();
    if (byName) df.readColumn(m.cols[c].name, v, true); else df.readColumn(c, v, true);
    VCHECK(v.size() == m.rows.size(), when << ": readColumn(resize) of column " << c << " returns " << v.size() << " values for " << m.rows.size() << " rows");
    for (size_t r = 0; r < v.size(); r++)
        VCHECK(veq(Variant(v[r]), m.rows[r][c]), when << ": readColumn: cell (" << r << "," << c << ") reads " << vshow(Variant(v[r])) << ", written last "
                                                      << vshow(m.rows[r][c]));
    if (!m.rows.empty()) {
        size_t off = t.below(static_cast<uint32_t>(m.rows.size()));
        size_t cnt = 1 + t.below(static_cast<uint32_t>(m.rows.size() - off));
        std::vector<T> w(cnt);
        df.readColumn(c, w, cnt, false, off);
        for (size_t r = 0; r < cnt; r++)
            VCHECK(veq(Variant(w[r]), m.rows[off + r][c]), when << ": readColumn(offset=" << off << ",count=" << cnt << "): cell (" << (off + r) << "," << c
                                                                << ") reads " << vshow(Variant(w[r])) << ", written last " << vshow(m.rows[off + r][c]));
        // resize with offset
        std::vector<T> x;
        df.readColumn(c, x, true, off);
        VCHECK(x.size() == m.rows.size() - off, when << ": readColumn(resize, offset=" << off << ") returns " << x.size() << " values");
        for (size_t r = 0; r < x.size(); r++)
            VCHECK(veq(Variant(x[r]), m.rows[off + r][c]), when << ": readColumn(resize,offset): cell (" << (off + r) << "," << c << ") differs");
    }
}

static void checkAll(nix::DataFrame &df, const Table &m, Tape &t, const char *when) {
    VCHECK(df.rows() == m.rows.size(), when << ": rows() = " << df.rows() << ", model " << m.rows.size());
    std::vector<nix::Column> cols = df.columns();
    VCHECK(cols.size() == m.cols.size(), when << ": columns() returns " << cols.size() << " columns");
    std::vector<std::string> names;
    for (size_t c = 0; c < cols.size(); c++) {
        VCHECK(cols[c].name == m.cols[c].name && cols[c].unit == m.cols[c].unit && cols[c].dtype == m.cols[c].dtype, when << ": column " << c << " schema differs");
        VCHECK(df.colName(static_cast<unsigned>(c)) == m.cols[c].name, when << ": colName(" << c << ")");
        VCHECK(df.colIndex(m.cols[c].name) == c, when << ": colIndex(" << m.cols[c].name << ")");
        names.push_back(m.cols[c].name);
    }
    for (size_t r = 0; r < m.rows.size(); r++) {
        std::vector<Variant> row = df.readRow(r);
        VCHECK(row.size() == m.cols.size(), when << ": readRow(" << r << ") returns " << row.size() << " values");
        for (size_t c = 0; c < row.size(); c++)
            VCHECK(veq(row[c], m.rows[r][c]), when << ": readRow: cell (" << r << "," << c << ") reads " << vshow(row[c]) << ", written last " << vshow(m.rows[r][c]));
        std::vector<nix::Cell> cells = df.readCells(r, names);
        VCHECK(cells.size() == m.cols.size(), when << ": readCells(" << r << ") returns " << cells.size() << " cells");
        for (size_t c = 0; c < cells.size(); c++)
            VCHECK(veq(cells[c], m.rows[r][c]), when << ": readCells: cell (" << r << "," << c << ") reads " << vshow(cells[c]) << ", written last "
                                                     << vshow(m.rows[r][c]));
        unsigned c1 = t.below(static_cast<uint32_t>(m.cols.size()));
        nix::Cell one = t.flip() ? df.readCell(r, c1) : df.readCell(r, m.cols[c1].name);
        VCHECK(veq(one, m.rows[r][c1]), when << ": readCell(" << r << "," << c1 << ") reads " << vshow(one) << ", written last " << vshow(m.rows[r][c1]));
    }
    for (unsigned c = 0; c < m.cols.size(); c++) {
        switch (m.cols[c].dtype) {
        case DataType::Int32: colRead<int32_t>(df, m, c, t, when); break;
        case DataType::UInt32: colRead<uint32_t>(df, m, c, t, when); break;
        case DataType::Int64: colRead<int64_t>(df, m, c, t, when); break;
        case DataType::UInt64: colRead<uint64_t>(df, m, c, t, when); break;
        case DataType::Double: colRead<double>(df, m, c, t, when); break;
        case DataType::String: colRead<std::string>(df, m, c, t, when); break;
        default: break; // std::vector<bool> has no column front end
        }
    }
}

template <typename T> static void colWrite(nix::DataFrame &df, Table &m, unsigned c, size_t off, size_t cnt, Tape &t, bool extra) {
    std::vector<T> v;
    std::vector<Variant> vv;
    for (size_t i = 0; i < cnt + (extra ? 2 : 0); i++) {
        Variant x = genValue(t, m.cols[c].dtype);
        vv.push_back(x);
        v.push_back(x.get<T>());
    }
    if (t.flip()) df.writeColumn(m.cols[c].name, v, off, extra ? cnt : 0); else df.writeColumn(c, v, off, extra ? cnt : 0);
    for (size_t i = 0; i < cnt; i++) m.rows[off + i][c] = vv[i];
}

static void body(Tape &t, Ctx &ctx) {
    std::string path = ctx.path("c15.nix");
    nix::File file = nix::File::open(path, nix::FileMode::Overwrite, "hdf5", t.flip() ? nix::Compression::DeflateNormal : nix::Compression::None);
    nix::Block block = file.createBlock("b", "t");
    Table m;
    size_t nc = 1 + t.below(8);
    static const char *units[] = {"", "mV", "s", "Hz"};
    ctx.trace << "C15 cols=";
    for (size_t c = 0; c < nc; c++) {
        nix::Column col;
        col.name = "c" + std::to_string(c) + (t.chance(20) ? " x" : "");
        col.unit = units[t.below(4)];
        col.dtype = c14::VT[t.below(7)];
        m.cols.push_back(col);
        ctx.trace << nix::data_type_to_string(col.dtype) << ",";
    }
    ctx.trace << " ";
    nix::DataFrame df = block.createDataFrame("f", "t", m.cols, static_cast<nix::Compression>(t.below(3)));
    bool hasString = false;
    for (auto &c : m.cols) hasString = hasString || c.dtype == DataType::String;
    size_t rowchg = 0, cross = 0, reopens = 0, string_unwritten = 0;
    checkAll(df, m, t, "after create");
    size_t nops = 1 + t.below(20);
    for (size_t op = 0; op < nops; op++) {
        if (op > 0 && t.exhausted()) break;
        size_t kind = t.pick({5, 4, 4, 3, 4, 2});
        if (kind == 0) {
            size_t n = t.pick({1, 5, 2}) == 0 ? 0 : (1 + t.below(9));
            ctx.trace << "rows(" << n << ") ";
            if (n > m.rows.size() && hasString) string_unwritten++;
            df.rows(n);
            m.resize(n);
            rowchg++;
        } else if (kind == 1) {
            if (m.rows.empty()) continue;
            size_t r = t.below(static_cast<uint32_t>(m.rows.size()));
            std::vector<Variant> v;
            for (auto &c : m.cols) v.push_back(genValue(t, c.dtype));
            ctx.trace << "writeRow(" << r << ") ";
            df.writeRow(r, v);
            m.rows[r] = v;
        } else if (kind == 2) {
            if (m.rows.empty()) continue;
            size_t r = t.below(static_cast<uint32_t>(m.rows.size()));
            if (t.flip()) {
                unsigned c = t.below(static_cast<uint32_t>(nc));
                Variant v = genValue(t, m.cols[c].dtype);
                ctx.trace << "writeCell(" << r << "," << c << ") ";
                df.writeCell(r, c, v);
                m.rows[r][c] = v;
            } else {
                // a subset of distinct columns, by index or by name, in any order
                std::vector<unsigned> idx;
                for (unsigned c = 0; c < nc; c++) if (t.flip()) idx.push_back(c);
                if (idx.empty()) idx.push_back(t.below(static_cast<uint32_t>(nc)));
                if (t.flip()) std::reverse(idx.begin(), idx.end());
                bool byName = t.flip();
                std::vector<nix::Cell> cells;
                std::vector<Variant> vals;
                for (unsigned c : idx) {
                    Variant v = genValue(t, m.cols[c].dtype);
                    vals.push_back(v);
                    if (byName) cells.push_back(nix::Cell(m.cols[c].name, v)); else cells.push_back(nix::Cell(c, v));
                }
                // cells are values: a caller may fill a pre-sized vector by assignment or reorder it afterwards
                const char *how = "";
                if (t.chance(40)) {
                    std::vector<nix::Cell> filled(cells.size());
                    for (size_t i = 0; i < cells.size(); i++) filled[i] = cells[i];
                    cells = filled;
                    how = ",assigned";
                } else if (t.chance(30) && cells.size() >= 2) {
                    std::swap(cells.front(), cells.back());
                    std::swap(idx.front(), idx.back());
                    std::swap(vals.front(), vals.back());
                    how = ",swapped";
                }
                ctx.trace << "writeCells(" << r << ",n=" << idx.size() << (byName ? ",byName" : ",byIndex") << how << ") ";
                df.writeCells(r, cells);
                for (size_t i = 0; i < idx.size(); i++) m.rows[r][idx[i]] = vals[i];
            }
            cross++;
        } else if (kind == 3) {
            if (m.rows.empty()) continue;
            unsigned c = t.below(static_cast<uint32_t>(nc));
            if (m.cols[c].dtype == DataType::Bool) continue;
            size_t off = t.below(static_cast<uint32_t>(m.rows.size()));
            size_t cnt = 1 + t.below(static_cast<uint32_t>(m.rows.size() - off));
            bool extra = t.chance(30);
            ctx.trace << "writeColumn(" << c << ",off=" << off << ",cnt=" << cnt << (extra ? ",count<size" : "") << ") ";
            switch (m.cols[c].dtype) {
            case DataType::Int32: colWrite<int32_t>(df, m, c, off, cnt, t, extra); break;
            case DataType::UInt32: colWrite<uint32_t>(df, m, c, off, cnt, t, extra); break;
            case DataType::Int64: colWrite<int64_t>(df, m, c, off, cnt, t, extra); break;
            case DataType::UInt64: colWrite<uint64_t>(df, m, c, off, cnt, t, extra); break;
            case DataType::Double: colWrite<double>(df, m, c, off, cnt, t, extra); break;
            default: colWrite<std::string>(df, m, c, off, cnt, t, extra); break;
            }
            cross++;
        } else if (kind == 4) {
            ctx.trace << "readAll ";
        } else {
            bool ro = t.flip();
            ctx.trace << "reopen(" << (ro ? "ro" : "rw") << ") ";
            file.close();
            if (ro) {
                file = nix::File::open(path, nix::FileMode::ReadOnly);
                block = file.getBlock("b");
                df = block.getDataFrame("f");
                checkAll(df, m, t, "after ReadOnly reopen");
                file.close();
            }
            file = nix::File::open(path, nix::FileMode::ReadWrite);
            block = file.getBlock("b");
            df = block.getDataFrame("f");
            reopens++;
        }
        checkAll(df, m, t, "after step");
    }
    file.close();
    file = nix::File::open(path, nix::FileMode::ReadOnly);
    block = file.getBlock("b");
    df = block.getDataFrame("f");
    checkAll(df, m, t, "after the final reopen");
    file.close();
    ctx.count("cols_" + std::to_string(nc));
    if (string_unwritten) ctx.count("string_column_with_unwritten_rows");
    if (reopens) ctx.count("with_reopen");
    ctx.nontrivial = (cross >= 1 && rowchg >= 2) || string_unwritten >= 1;
}

} // namespace c15
