// c16.hpp - C16: no sequence of public API calls causes undefined behaviour; misuse throws.
//
// One case = a program over the whole API with the FULL argument profile: the mutating steps of
// prog.hpp (profile Reject: valid, boundary and invalid arguments) interleaved with "misuse" steps -
// index getters at / past the end and at 2^64-1, data reads and writes with wrong ranks and with counts /
// offsets outside the data, reads in other element types and of never-written data, DataView windows,
// tagged / feature / slice retrieval with whatever tags and arrays exist, position conversion with NaN,
// inf and huge values, data frame access past the rows / columns, uninitialised handles, handles to deleted
// entities, validation in arbitrary states, and - at the end - handles used after close().
// Oracle: every call returns or throws a C++ exception (the process runs under ASan + UBSan, any report,
// signal or abort kills it and is a violation); afterwards the file closes and reopens.
// Sizes are small (<= 4096 elements) or absurd (>= 2^40, must fail fast) so that memory pressure is never
// the signal.
#pragma once
#include "prog.hpp"

namespace c16 {

using namespace vf;

static const nix::PositionMatch ALL_PM_[5] = {nix::PositionMatch::Equal, nix::PositionMatch::Less, nix::PositionMatch::Greater, nix::PositionMatch::GreaterOrEqual,
                                              nix::PositionMatch::LessOrEqual};

struct Counters {
    size_t calls = 0, threw = 0, misuse = 0, backend = 0;
};

template <typename F> static void attempt(Counters &c, std::ostream &tr, const char *name, F f) {
    c.calls++;
    static const bool echo = getenv("C16_ECHO") != nullptr;
    if (echo) fprintf(stderr, "[%s]\n", name);
    try {
        f();
        tr << name << " ";
    } catch (const Violation &) {
        throw;
    } catch (const std::exception &) {
        c.threw++;
        tr << name << "! ";
    }
}

static nix::ndsize_t badIndex(Tape &t, size_t n) {
    switch (t.pick({3, 3, 2, 2, 1})) {
    case 0: return n;
    case 1: return n ? n - 1 : 0;
    case 2: return n + 1 + t.below(5);
    case 3: return std::numeric_limits<nix::ndsize_t>::max() - t.below(2);
    default: return n ? t.below(static_cast<uint32_t>(n)) : 0;
    }
}

static double oddDouble(Tape &t) {
    static const double v[] = {0.0, -0.0, 1.0, -1.0, 0.5, 1e300, -1e300, 1e19, 1.8446744073709552e19, 9.3e18, 4.9e-324, 1e-300};
    switch (t.pick({6, 1, 1, 1, 3})) {
    case 0: return v[t.below(12)];
    case 1: return std::numeric_limits<double>::quiet_NaN();
    case 2: return std::numeric_limits<double>::infinity();
    case 3: return -std::numeric_limits<double>::infinity();
    default: return (t.unit() - 0.5) * 40.0;
    }
}

static std::vector<double> oddVec(Tape &t, size_t maxn) {
    std::vector<double> v(t.below(static_cast<uint32_t>(maxn + 1)));
    for (auto &x : v) x = t.chance(25) ? oddDouble(t) : static_cast<double>(t.range(-2, 9)) * 0.5;
    return v;
}

// count / offset vectors for raw I/O on an array of the given extent: in range, at the edge, outside,
// wrong rank, absurd
static void ioArgs(Tape &t, const nix::NDSize &ext, nix::NDSize &cnt, nix::NDSize &off, uint64_t &elems, bool &absurd) {
    size_t R = ext.size();
    size_t r = R;
    if (t.chance(12)) r = t.below(5);
    cnt = nix::NDSize(r, 1);
    off = nix::NDSize(r, 0);
    absurd = false;
    for (size_t d = 0; d < r; d++) {
        uint64_t e = d < R ? ext[d] : 2;
        switch (t.pick({6, 2, 2, 1, 1})) {
        case 0: off[d] = e ? t.below(static_cast<uint32_t>(e)) : 0; cnt[d] = e > off[d] ? 1 + t.below(static_cast<uint32_t>(e - off[d])) : 1; break;
        case 1: off[d] = e; cnt[d] = 1 + t.below(2); break;
        case 2: off[d] = e ? t.below(static_cast<uint32_t>(e)) : 0; cnt[d] = e - off[d] + 1 + t.below(3); break;
        case 3: off[d] = std::numeric_limits<nix::ndsize_t>::max() - t.below(3); cnt[d] = 1 + t.below(3); break;
        default: off[d] = 0; cnt[d] = (static_cast<uint64_t>(1) << 40) + t.below(7); absurd = true; break;
        }
        if (cnt[d] == 0) cnt[d] = 1;
    }
    elems = 1;
    for (size_t d = 0; d < r; d++) {
        if (cnt[d] > 4096 || elems > 4096) { absurd = true; break; }
        elems *= cnt[d];
    }
    if (elems > 4096) absurd = true;
    if (absurd) elems = 8;
    // an empty count (or offset) vector means "everything": the buffer must hold the whole extent
    if (r == 0 || r != R) {
        uint64_t all = 1;
        for (size_t d = 0; d < R; d++) all *= std::max<uint64_t>(ext[d], 1);
        elems = std::max(elems, std::min<uint64_t>(all, 1u << 20));
    }
}

static const nix::DataType ALL_TYPES[] = {nix::DataType::Bool, nix::DataType::Char, nix::DataType::Float, nix::DataType::Double, nix::DataType::Int8,
                                          nix::DataType::Int16, nix::DataType::Int32, nix::DataType::Int64, nix::DataType::UInt8, nix::DataType::UInt16,
                                          nix::DataType::UInt32, nix::DataType::UInt64, nix::DataType::String, nix::DataType::Opaque, nix::DataType::Nothing};

static void rawRead(const nix::DataArray &a, nix::DataType dt, const nix::NDSize &cnt, const nix::NDSize &off, uint64_t elems) {
    if (dt == nix::DataType::String) {
        std::vector<std::string> v(elems);
        a.getData(dt, v.data(), cnt, off);
    } else {
        std::vector<unsigned char> buf(elems * 16 + 16, 0);
        a.getData(dt, buf.data(), cnt, off);
    }
}
static void rawWrite(nix::DataArray &a, nix::DataType dt, const nix::NDSize &cnt, const nix::NDSize &off, uint64_t elems) {
    if (dt == nix::DataType::String) {
        std::vector<std::string> v(elems, "w");
        a.setData(dt, v.data(), cnt, off);
    } else {
        std::vector<unsigned char> buf(elems * 16 + 16, 1);
        a.setData(dt, buf.data(), cnt, off);
    }
}

struct Kept {
    std::vector<nix::Block> blocks;
    std::vector<nix::DataArray> arrays;
    std::vector<nix::Tag> tags;
    std::vector<nix::MultiTag> mtags;
    std::vector<nix::Section> sections;
    std::vector<nix::Property> props;
    std::vector<nix::DataFrame> frames;
    std::vector<nix::Dimension> dims;
    std::vector<nix::Feature> features;
    std::vector<nix::Source> sources;
    std::vector<nix::Group> groups;
    std::vector<std::shared_ptr<nix::DataView>> views;
};

template <typename V> static void keepSome(V &v, const typename V::value_type &x) { if (x && v.size() < 6) v.push_back(x); }

static void misuse(Tape &t, Prog &p, Kept &k, Counters &c, std::ostream &tr) {
    c.misuse++;
    nix::File &f = p.f;
    nix::Block b = p.blk();
    keepSome(k.blocks, b);
    static const size_t OPS[] = {0, 1, 2, 3, 4, 5, 6, 7, 8, 9, 10, 11, 11, 11, 12, 12, 13, 13, 13, 14, 15, 15, 16, 16, 16, 17, 17, 17, 18, 18, 18, 19, 19, 20, 21, 21, 21,
                                 22, 23, 23, 24, 25, 26, 27, 28, 28, 28, 29, 30, 31, 32, 33, 34, 34};
    switch (OPS[t.below(sizeof OPS / sizeof OPS[0])]) {
    case 0: attempt(c, tr, "File.getBlock(i)", [&] { f.getBlock(badIndex(t, f.blockCount())); }); break;
    case 1: attempt(c, tr, "File.getSection(i)", [&] { f.getSection(badIndex(t, f.sectionCount())); }); break;
    case 2: if (b) attempt(c, tr, "Block.getDataArray(i)", [&] { keepSome(k.arrays, b.getDataArray(badIndex(t, b.dataArrayCount()))); }); break;
    case 3: if (b) attempt(c, tr, "Block.getTag(i)", [&] { keepSome(k.tags, b.getTag(badIndex(t, b.tagCount()))); }); break;
    case 4: if (b) attempt(c, tr, "Block.getMultiTag(i)", [&] { keepSome(k.mtags, b.getMultiTag(badIndex(t, b.multiTagCount()))); }); break;
    case 5: if (b) attempt(c, tr, "Block.getGroup/Source/Frame(i)", [&] {
                keepSome(k.groups, b.getGroup(badIndex(t, b.groupCount())));
                keepSome(k.sources, b.getSource(badIndex(t, b.sourceCount())));
                keepSome(k.frames, b.getDataFrame(badIndex(t, b.dataFrameCount())));
            });
        break;
    case 6: {
        nix::Section s = p.sec();
        keepSome(k.sections, s);
        if (s) attempt(c, tr, "Section.getSection/getProperty(i)", [&] { s.getSection(badIndex(t, s.sectionCount())); keepSome(k.props, s.getProperty(badIndex(t, s.propertyCount()))); });
        break;
    }
    case 7: {
        nix::Tag x = p.tag(b);
        if (x) attempt(c, tr, "Tag.getReference/getFeature/getSource(i)", [&] {
            x.getReference(static_cast<size_t>(badIndex(t, x.referenceCount())));
            keepSome(k.features, x.getFeature(badIndex(t, x.featureCount())));
            x.getSource(static_cast<size_t>(badIndex(t, x.sourceCount())));
        });
        break;
    }
    case 8: {
        nix::MultiTag x = p.mtag(b);
        if (x) attempt(c, tr, "MultiTag.getReference/getFeature(i)", [&] {
            x.getReference(static_cast<size_t>(badIndex(t, x.referenceCount())));
            keepSome(k.features, x.getFeature(static_cast<size_t>(badIndex(t, x.featureCount()))));
        });
        break;
    }
    case 9: {
        nix::Group g = p.grp(b);
        if (g) attempt(c, tr, "Group.get*(i)", [&] {
            g.getDataArray(static_cast<size_t>(badIndex(t, g.dataArrayCount())));
            g.getTag(static_cast<size_t>(badIndex(t, g.tagCount())));
            g.getMultiTag(static_cast<size_t>(badIndex(t, g.multiTagCount())));
            g.getDataFrame(badIndex(t, g.dataFrameCount()));
        });
        break;
    }
    case 10: {
        nix::DataArray a = p.arr(b);
        if (a) attempt(c, tr, "DataArray.getDimension(i)", [&] { keepSome(k.dims, a.getDimension(badIndex(t, a.dimensionCount() + 1))); });
        break;
    }
    case 11: { // raw read with arbitrary count / offset / type
        nix::DataArray a = p.arr(b);
        if (!a) break;
        nix::NDSize cnt, off;
        uint64_t n;
        bool absurd;
        ioArgs(t, a.dataExtent(), cnt, off, n, absurd);
        nix::DataType dt = t.chance(60) ? a.dataType() : ALL_TYPES[t.below(15)];
        c.backend++;
        attempt(c, tr, absurd ? "DataArray.getData(absurd)" : "DataArray.getData(raw)", [&] { rawRead(a, dt, cnt, off, n); });
        break;
    }
    case 12: { // raw write
        nix::DataArray a = p.arr(b);
        if (!a) break;
        nix::NDSize cnt, off;
        uint64_t n;
        bool absurd;
        ioArgs(t, a.dataExtent(), cnt, off, n, absurd);
        nix::DataType dt = t.chance(70) ? a.dataType() : ALL_TYPES[t.below(15)];
        c.backend++;
        attempt(c, tr, absurd ? "DataArray.setData(absurd)" : "DataArray.setData(raw)", [&] { rawWrite(a, dt, cnt, off, n); });
        break;
    }
    case 13: { // typed whole-array reads in another type, incl. never-written data
        nix::DataArray a = p.arr(b);
        if (!a) break;
        c.backend++;
        switch (t.below(5)) {
        case 0: attempt(c, tr, "DataArray.getData<double>", [&] { std::vector<double> v; a.getData(v); }); break;
        case 1: attempt(c, tr, "DataArray.getData<string>", [&] { std::vector<std::string> v; a.getData(v); }); break;
        case 2: attempt(c, tr, "DataArray.getData<int8>", [&] { std::vector<int8_t> v; a.getData(v); }); break;
        case 3: attempt(c, tr, "DataArray.getData<uint64>", [&] { std::vector<uint64_t> v; a.getData(v); }); break;
        default: attempt(c, tr, "DataArray.getData<float>(count,offset)", [&] {
                nix::NDSize cnt, off;
                uint64_t n;
                bool absurd;
                ioArgs(t, a.dataExtent(), cnt, off, n, absurd);
                if (absurd) return;
                std::vector<float> v;
                a.getData(v, cnt, off);
            });
            break;
        }
        break;
    }
    case 14: { // extents: wrong rank, zero, shrink below dimension descriptors
        nix::DataArray a = p.arr(b);
        if (!a) break;
        nix::NDSize ne(t.below(5), 0);
        for (size_t d = 0; d < ne.size(); d++) ne[d] = t.below(7);
        attempt(c, tr, "DataArray.dataExtent(any)", [&] { a.dataExtent(ne); });
        break;
    }
    case 15: { // DataView windows and requests
        nix::DataArray a = p.arr(b);
        if (!a) break;
        nix::NDSize cnt, off;
        uint64_t n;
        bool absurd;
        ioArgs(t, a.dataExtent(), cnt, off, n, absurd);
        attempt(c, tr, "DataView(window)", [&] {
            auto v = std::make_shared<nix::DataView>(a, cnt, off);
            if (k.views.size() < 4) k.views.push_back(v);
            nix::NDSize rc, ro;
            uint64_t m;
            bool abs2;
            ioArgs(t, v->dataExtent(), rc, ro, m, abs2);
            std::vector<unsigned char> buf(m * 16 + 16, 0);
            if (a.dataType() == nix::DataType::String) return;
            if (t.flip()) v->getData(a.dataType(), buf.data(), rc, ro); else v->setData(a.dataType(), buf.data(), rc, ro);
        });
        break;
    }
    case 16: { // tagged data / offset and count for whatever is there
        nix::Tag x = p.tag(b);
        nix::DataArray a = p.arr(b);
        nix::RangeMatch m = t.flip() ? nix::RangeMatch::Inclusive : nix::RangeMatch::Exclusive;
        if (x && a) { c.backend++; attempt(c, tr, "util::taggedData(tag, array)", [&] { nix::DataView v = nix::util::taggedData(x, a, m); std::vector<double> d; if (a.dataType() != nix::DataType::String) v.getData(d); }); }
        if (x) attempt(c, tr, "util::taggedData(tag, i)", [&] { nix::util::taggedData(x, badIndex(t, x.referenceCount()), m); });
        if (x) attempt(c, tr, "util::featureData(tag, i)", [&] { nix::util::featureData(x, badIndex(t, x.featureCount()), m); });
        break;
    }
    case 17: {
        nix::MultiTag x = p.mtag(b);
        nix::DataArray a = p.arr(b);
        nix::RangeMatch m = t.flip() ? nix::RangeMatch::Inclusive : nix::RangeMatch::Exclusive;
        if (x && a) {
            c.backend++;
            attempt(c, tr, "util::taggedData(mtag, i, array)", [&] { nix::util::taggedData(x, badIndex(t, 2), a, m); });
            attempt(c, tr, "util::taggedData(mtag, list, array)", [&] {
                std::vector<nix::ndsize_t> idx;
                for (size_t i = 0, n = t.below(4); i < n; i++) idx.push_back(badIndex(t, 2));
                nix::util::taggedData(x, idx, a, m);
            });
        }
        if (x) attempt(c, tr, "util::featureData(mtag, i, j)", [&] { nix::util::featureData(x, badIndex(t, 2), badIndex(t, x.featureCount()), m); });
        break;
    }
    case 18: { // slices with vectors of any length
        nix::DataArray a = p.arr(b);
        if (!a) break;
        std::vector<double> s = oddVec(t, 4), e = oddVec(t, 4);
        if (t.chance(60)) for (size_t i = 0; i < std::min(s.size(), e.size()); i++) if (s[i] > e[i]) std::swap(s[i], e[i]);
        std::vector<std::string> u;
        static const char *us[] = {"none", "ms", "s", "mV", "foo", "", "m/s"};
        for (size_t i = 0, n = t.below(4); i < n; i++) u.push_back(us[t.below(7)]);
        c.backend++;
        attempt(c, tr, "util::dataSlice", [&] { nix::DataView v = nix::util::dataSlice(a, s, e, u, t.flip() ? nix::RangeMatch::Inclusive : nix::RangeMatch::Exclusive); (void)v; });
        break;
    }
    case 19: { // position conversion with odd values
        nix::DataArray a = p.arr(b);
        if (!a || !a.dimensionCount()) break;
        nix::Dimension d = a.getDimension(1 + t.below(static_cast<uint32_t>(a.dimensionCount())));
        if (!d) break;
        keepSome(k.dims, d);
        double x = oddDouble(t), y = oddDouble(t);
        nix::PositionMatch pm = ALL_PM_[t.below(5)];
        attempt(c, tr, "Dimension.indexOf(odd)", [&] {
            switch (d.dimensionType()) {
            case nix::DimensionType::Sample: { auto sd = d.asSampledDimension(); sd.indexOf(x, pm); sd.indexOf(x, y, nix::RangeMatch::Inclusive); sd.positionAt(badIndex(t, 3)); sd.axis(t.below(40), badIndex(t, 3)); break; }
            case nix::DimensionType::Range: { auto rd = d.asRangeDimension(); rd.indexOf(x, pm); rd.tickAt(badIndex(t, rd.ticks().size())); rd.axis(t.below(40), badIndex(t, rd.ticks().size())); rd.positionInRange(x); break; }
            case nix::DimensionType::Set: { auto sd = d.asSetDimension(); sd.indexOf(x, pm); sd.indexOf(x, y, nix::RangeMatch::Exclusive); break; }
            default: { auto fd = d.asDataFrameDimension(); fd.indexOf(x, pm); fd.size(); fd.unit(); fd.label(); break; }
            }
        });
        attempt(c, tr, "util::positionToIndex(odd)", [&] {
            switch (d.dimensionType()) {
            case nix::DimensionType::Sample: nix::util::positionToIndex(x, t.flip() ? "ms" : "none", pm, d.asSampledDimension()); break;
            case nix::DimensionType::Range: nix::util::positionToIndex(x, t.flip() ? "s" : "none", pm, d.asRangeDimension()); break;
            case nix::DimensionType::Set: nix::util::positionToIndex(x, pm, d.asSetDimension()); break;
            default: nix::util::positionToIndex(x, pm, d.asDataFrameDimension()); break;
            }
        });
        break;
    }
    case 20: { // absurd axis request must fail fast or be refused
        nix::DataArray a = p.arr(b);
        if (!a || !a.dimensionCount()) break;
        nix::Dimension d = a.getDimension(1);
        if (d && d.dimensionType() == nix::DimensionType::Range) attempt(c, tr, "RangeDimension.axis(absurd)", [&] { d.asRangeDimension().axis(static_cast<nix::ndsize_t>(1) << 40, t.below(3)); });
        break;
    }
    case 21: { // data frame access past rows / columns, wrong types
        nix::DataFrame df = p.frm(b);
        if (!df) break;
        keepSome(k.frames, df);
        c.backend++;
        switch (t.below(7)) {
        case 0: attempt(c, tr, "DataFrame.readRow(i)", [&] { df.readRow(badIndex(t, df.rows())); }); break;
        case 1: attempt(c, tr, "DataFrame.readCell(i,j)", [&] { df.readCell(badIndex(t, df.rows()), static_cast<unsigned>(badIndex(t, df.columns().size()) & 0xffffffffu)); }); break;
        case 2: attempt(c, tr, "DataFrame.colName/colIndex", [&] { df.colName(static_cast<unsigned>(badIndex(t, df.columns().size()) & 0xffffffffu)); df.colIndex(t.flip() ? "c0" : "nope"); }); break;
        case 3: attempt(c, tr, "DataFrame.writeRow(wrong arity)", [&] {
                std::vector<nix::Variant> v;
                for (size_t i = 0, n = t.below(6); i < n; i++) v.push_back(t.flip() ? nix::Variant(1.5) : nix::Variant(std::string("x")));
                df.writeRow(badIndex(t, df.rows()), v);
            });
            break;
        case 4: attempt(c, tr, "DataFrame.readColumn<double>", [&] { std::vector<double> v; df.readColumn(static_cast<unsigned>(t.below(4)), v, t.flip(), badIndex(t, df.rows())); }); break;
        case 5: attempt(c, tr, "DataFrame.readColumn<string>", [&] { std::vector<std::string> v; df.readColumn(static_cast<unsigned>(t.below(4)), v, true, badIndex(t, df.rows())); }); break;
        default: attempt(c, tr, "DataFrame.writeCells", [&] {
                std::vector<nix::Cell> cells;
                for (size_t i = 0, n = t.below(4); i < n; i++) cells.emplace_back(static_cast<unsigned>(t.below(5)), nix::Variant(static_cast<int32_t>(3)));
                df.writeCells(badIndex(t, df.rows()), cells);
            });
            break;
        }
        break;
    }
    case 22: // uninitialised handles
        attempt(c, tr, "uninitialised.DataArray", [&] { nix::DataArray x; x.dataExtent(); });
        attempt(c, tr, "uninitialised.Tag", [&] { nix::Tag x; x.position(); });
        attempt(c, tr, "uninitialised.Section", [&] { nix::Section x; x.propertyCount(); });
        attempt(c, tr, "uninitialised.Block.createDataArray", [&] { nix::Block x; x.createDataArray("a", "t", nix::DataType::Double, nix::NDSize({1})); });
        attempt(c, tr, "uninitialised.Dimension", [&] { nix::Dimension x; x.index(); });
        attempt(c, tr, "uninitialised.Feature", [&] { nix::Feature x; x.data(); });
        attempt(c, tr, "uninitialised.File", [&] { nix::File x; x.blockCount(); });
        break;
    case 23: // handles to deleted entities
        if (!p.deadArrays.empty()) {
            nix::DataArray d = p.deadArrays[t.below(static_cast<uint32_t>(p.deadArrays.size()))];
            attempt(c, tr, "deleted.DataArray.read", [&] { d.dataExtent(); std::vector<double> v; d.getData(v); d.dimensionCount(); d.dimensions(); });
            attempt(c, tr, "deleted.DataArray.write", [&] { d.label("x"); d.appendSetDimension(); });
        }
        if (!p.deadSections.empty()) {
            nix::Section d = p.deadSections[t.below(static_cast<uint32_t>(p.deadSections.size()))];
            attempt(c, tr, "deleted.Section", [&] { d.name(); d.sections(); d.createProperty("zz", nix::Variant(1.0)); d.parent(); });
        }
        if (!p.deadTags.empty()) {
            nix::Tag d = p.deadTags[t.below(static_cast<uint32_t>(p.deadTags.size()))];
            attempt(c, tr, "deleted.Tag", [&] { d.references(); d.features(); d.position({1.0}); });
        }
        if (!p.deadSources.empty()) {
            nix::Source d = p.deadSources[t.below(static_cast<uint32_t>(p.deadSources.size()))];
            attempt(c, tr, "deleted.Source", [&] { d.sources(); d.parentSource(); d.referringDataArrays(); });
        }
        if (!p.deadFrames.empty()) {
            nix::DataFrame d = p.deadFrames[t.below(static_cast<uint32_t>(p.deadFrames.size()))];
            attempt(c, tr, "deleted.DataFrame", [&] { d.rows(); d.readRow(0); d.rows(3); });
        }
        break;
    case 24: // kept handles whose entity may have been deleted / emptied meanwhile
        for (auto &x : k.dims) attempt(c, tr, "kept.Dimension", [&] { x.dimensionType(); x.index(); });
        for (auto &x : k.features) attempt(c, tr, "kept.Feature", [&] { x.data(); x.linkType(); });
        for (auto &x : k.props) attempt(c, tr, "kept.Property", [&] { x.values(); x.valueCount(); x.name(); });
        for (auto &x : k.views) attempt(c, tr, "kept.DataView", [&] { std::vector<unsigned char> buf(x->dataExtent().nelms() * 16 + 16); if (x->dataType() != nix::DataType::String) x->getData(x->dataType(), buf.data(), x->dataExtent(), nix::NDSize(x->dataExtent().size(), 0)); });
        break;
    case 25: attempt(c, tr, "File.validate", [&] { nix::valid::Result r = f.validate(); (void)r.getErrors(); (void)r.getWarnings(); }); break;
    case 26: { // search functions with extreme depth / odd filters
        nix::Section s = p.sec();
        if (s) attempt(c, tr, "Section.find*", [&] { s.findSections(nix::util::TypeFilter<nix::Section>("t"), badIndex(t, 2)); s.findRelated(); s.inheritedProperties(); s.referringDataArrays(); });
        if (b) attempt(c, tr, "Block.findSources", [&] { b.findSources(nix::util::NameFilter<nix::Source>("a"), badIndex(t, 2)); });
        attempt(c, tr, "File.findSections", [&] { f.findSections(nix::util::AcceptAll<nix::Section>(), badIndex(t, 1)); });
        break;
    }
    case 27: { // property values of odd kinds
        nix::Section s = p.sec();
        nix::Property pr = p.prop(s);
        if (!pr) break;
        attempt(c, tr, "Property.values(odd)", [&] {
            std::vector<nix::Variant> v;
            for (size_t i = 0, n = t.below(5); i < n; i++) {
                switch (t.below(4)) {
                case 0: v.push_back(nix::Variant(std::string())); break;
                case 1: v.push_back(nix::Variant()); break;
                case 2: v.push_back(nix::Variant(oddDouble(t))); break;
                default: v.push_back(nix::Variant(std::string(t.below(3000), 'x'))); break;
                }
            }
            pr.values(v);
            pr.values();
        });
        break;
    }
    case 28: { // polynomial reads in other types
        nix::DataArray a = p.arr(b);
        if (!a) break;
        attempt(c, tr, "DataArray.calibrated read", [&] {
            if (t.flip()) a.polynomCoefficients(oddVec(t, 4));
            if (t.flip()) a.expansionOrigin(oddDouble(t));
            if (a.dataType() == nix::DataType::String) return;
            std::vector<float> vf;
            a.getData(vf);
            std::vector<int16_t> vi;
            a.getData(vi);
        });
        attempt(c, tr, "DataArray.calibrated read as string", [&] { std::vector<std::string> vs; a.getData(vs); });
        break;
    }
    case 29: { // unit utilities with arbitrary strings
        static const char *us[] = {"", "m", "mm^2", "mmol^-2", "^", "m^", "m^0", "k", "da", "mV/ms", "mV*s^-1/", "/", "*", "µV", "deg", "1/s", "mol^99999999999", "s^-0"};
        std::string u = us[t.below(18)], v = us[t.below(18)];
        attempt(c, tr, "util::units", [&] {
            nix::util::isSIUnit(u); nix::util::isAtomicSIUnit(u); nix::util::isCompoundSIUnit(u); nix::util::isScalable(u, v);
            std::string a1, a2, a3; nix::util::splitUnit(u, a1, a2, a3);
            std::vector<std::string> parts; nix::util::splitCompoundUnit(u, parts);
            nix::util::unitSanitizer(u);
        });
        attempt(c, tr, "util::getSIScaling", [&] { nix::util::getSIScaling(u, v); });
        break;
    }
    case 30: { // group / tag operations with foreign or stale handles
        nix::Group g = p.grp(b);
        if (g && !p.deadArrays.empty()) attempt(c, tr, "Group.add/has/remove(deleted array)", [&] { g.hasDataArray(p.deadArrays[0]); g.removeDataArray(p.deadArrays[0]); g.addDataArray(p.deadArrays[0]); });
        nix::Tag x = p.tag(b);
        if (x && !p.deadArrays.empty()) attempt(c, tr, "Tag.ref/feature(deleted array)", [&] { x.hasReference(p.deadArrays[0]); x.removeReference(p.deadArrays[0]); x.createFeature(p.deadArrays[0], nix::LinkType::Tagged); });
        break;
    }
    case 31: { // alias range dimension on unsuitable arrays
        nix::DataArray a = p.arr(b);
        if (a) attempt(c, tr, "DataArray.appendAliasRangeDimension", [&] { a.appendAliasRangeDimension(); });
        if (a && a.dimensionCount()) attempt(c, tr, "alias.ticks/axis", [&] {
            nix::Dimension d = a.getDimension(1);
            if (d.dimensionType() == nix::DimensionType::Range) { auto rd = d.asRangeDimension(); rd.ticks(); rd.axis(t.below(20), badIndex(t, 2)); rd.indexOf(oddDouble(t), nix::PositionMatch::GreaterOrEqual); }
        });
        break;
    }
    case 32: { // getters by odd names
        static const char *ns[] = {"", "/", "..", ".", "a/b", "nothing", "00000000-0000-0000-0000-000000000000"};
        std::string n = ns[t.below(7)];
        attempt(c, tr, "get(by odd name)", [&] {
            f.getBlock(n); f.hasBlock(n); f.getSection(n); f.hasSection(n);
            if (b) { b.getDataArray(n); b.hasTag(n); b.getMultiTag(n); b.hasSource(n); b.getGroup(n); b.hasDataFrame(n); }
        });
        attempt(c, tr, "delete(by odd name)", [&] { f.deleteBlock(n); f.deleteSection(n); if (b) { b.deleteDataArray(n); b.deleteTag(n); } });
        break;
    }
    case 34: { // feature lookups by names of arrays that exist, were deleted, or never existed
        static const char *ns[] = {"zz_range", "zz_str", "zz_2d", "nothing", "", "00000000-0000-0000-0000-000000000000"};
        std::string n = ns[t.below(6)];
        if (!p.deadArrays.empty() && t.flip()) { try { n = t.flip() ? p.deadArrays[0].id() : p.deadArrays[0].name(); } catch (const std::exception &) {} }
        nix::Tag x = p.tag(b);
        nix::MultiTag m = p.mtag(b);
        if (x) attempt(c, tr, "Tag.hasFeature/getFeature(name)", [&] { x.hasFeature(n); x.getFeature(n); x.deleteFeature(n); });
        if (m) attempt(c, tr, "MultiTag.hasFeature/getFeature(name)", [&] { m.hasFeature(n); m.getFeature(n); });
        if (x) attempt(c, tr, "Tag.hasReference/getReference(name)", [&] { x.hasReference(n); x.getReference(n); });
        break;
    }
    default: { // comparisons and printing
        nix::DataArray a = p.arr(b), a2 = p.arr(b);
        attempt(c, tr, "operators", [&] {
            std::ostringstream os;
            if (a) os << a << (a == a2) << (a != a2);
            if (b) os << b;
            nix::Section s = p.sec();
            if (s) os << s << (s == nix::none);
        });
        break;
    }
    }
}

static void body(Tape &t, Ctx &ctx) {
    std::string pa = ctx.path("c16.nix"), pb = ctx.path("c16_other.nix");
    Prog p(t, ctx.trace, Profile::Reject);
    ctx.trace << "C16: ";
    p.start(pa, pb);
    furnishFile(p.f);
    Kept k;
    Counters c;
    size_t nops = 6 + t.below(70);
    for (size_t i = 0; i < nops; i++) {
        if (i > 0 && t.exhausted()) break;
        if (t.chance(45)) misuse(t, p, k, c, ctx.trace);
        else {
            StepInfo si = p.step();
            c.calls++;
            if (si.threw) c.threw++;
        }
    }
    // close with everything still alive, then use the stale handles
    bool closed = true;
    try { p.f.close(); } catch (const std::exception &e) { closed = false; }
    VCHECK(closed, "File::close() threw at the end of the program");
    for (auto &x : k.blocks) attempt(c, ctx.trace, "stale.Block", [&] { x.dataArrayCount(); x.createTag("late", "t", {0.0}); });
    for (auto &x : k.arrays) attempt(c, ctx.trace, "stale.DataArray", [&] { std::vector<double> v; x.getData(v); x.dataExtent(nix::NDSize({2})); });
    for (auto &x : k.tags) attempt(c, ctx.trace, "stale.Tag", [&] { x.references(); x.position(); });
    for (auto &x : k.mtags) attempt(c, ctx.trace, "stale.MultiTag", [&] { x.positions(); x.featureCount(); });
    for (auto &x : k.sections) attempt(c, ctx.trace, "stale.Section", [&] { x.properties(); x.createSection("late", "t"); });
    for (auto &x : k.props) attempt(c, ctx.trace, "stale.Property", [&] { x.values(); });
    for (auto &x : k.frames) attempt(c, ctx.trace, "stale.DataFrame", [&] { x.readRow(0); });
    for (auto &x : k.dims) attempt(c, ctx.trace, "stale.Dimension", [&] { x.dimensionType(); });
    for (auto &x : k.features) attempt(c, ctx.trace, "stale.Feature", [&] { x.data(); });
    for (auto &x : k.sources) attempt(c, ctx.trace, "stale.Source", [&] { x.sourceCount(); });
    for (auto &x : k.groups) attempt(c, ctx.trace, "stale.Group", [&] { x.dataArrayCount(); });
    for (auto &x : k.views) attempt(c, ctx.trace, "stale.DataView", [&] { double d; x->getData(nix::DataType::Double, &d, nix::NDSize(x->dataExtent().size(), 1), nix::NDSize(x->dataExtent().size(), 0)); });
    // the file is still a file
    try {
        nix::File g = nix::File::open(pa, nix::FileMode::ReadOnly);
        g.blockCount();
        g.close();
    } catch (const std::exception &e) {
        VCHECK(false, "after the program the file closed normally but cannot be reopened: " << e.what());
    }
    p.finish();
    ctx.nontrivial = c.backend >= 1 && c.threw >= 1;
    ctx.count("api_calls", c.calls);
    ctx.count("calls_that_threw", c.threw);
    ctx.count("misuse_steps", c.misuse);
}

} // namespace c16
