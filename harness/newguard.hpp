// newguard.hpp - included by exactly one translation unit of every harness executable.
// ASan's operator new aborts the process ("out-of-memory") for requests beyond its allocator limit even with
// allocator_may_return_null=1, whereas the real runtime throws std::bad_alloc - an exception, i.e. an allowed
// outcome under C16. The harness therefore replaces the global allocation functions: requests above 64 GiB
// throw std::bad_alloc like an exhausted system does, everything else goes to (ASan-instrumented) malloc, so
// heap overflows and use-after-free stay visible. (The harness generates sizes that are either small or
// absurd, nothing in between.)
#pragma once
#include <cstdlib>
#include <new>

static inline void *vf_alloc(std::size_t n) {
    if (n > (static_cast<std::size_t>(1) << 36)) throw std::bad_alloc();
    void *p = std::malloc(n ? n : 1);
    if (!p) throw std::bad_alloc();
    return p;
}
void *operator new(std::size_t n) { return vf_alloc(n); }
void *operator new[](std::size_t n) { return vf_alloc(n); }
void *operator new(std::size_t n, const std::nothrow_t &) noexcept { return n > (static_cast<std::size_t>(1) << 36) ? nullptr : std::malloc(n ? n : 1); }
void *operator new[](std::size_t n, const std::nothrow_t &) noexcept { return n > (static_cast<std::size_t>(1) << 36) ? nullptr : std::malloc(n ? n : 1); }
void operator delete(void *p) noexcept { std::free(p); }
void operator delete[](void *p) noexcept { std::free(p); }
void operator delete(void *p, std::size_t) noexcept { std::free(p); }
void operator delete[](void *p, std::size_t) noexcept { std::free(p); }
void operator delete(void *p, const std::nothrow_t &) noexcept { std::free(p); }
void operator delete[](void *p, const std::nothrow_t &) noexcept { std::free(p); }
