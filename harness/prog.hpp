// prog.hpp - tape-decoded programs over the public nix API. One step = at most ONE mutating API call
// (so that "the call threw" and "the state changed" can be attributed to it), preceded by reads that
// select its operands from the live file. Profiles select whether out-of-contract arguments occur.
#pragma once
#include "snapshot.hpp"

namespace vf {

enum class Profile { Valid, Reject, Full };

// a populated block so that the misuse steps meet entities of every kind from the first step on
inline void furnishFile(nix::File &f) {
    nix::Block b = f.createBlock("zz", "t");
    nix::DataArray a2 = b.createDataArray("zz_2d", "t", nix::DataType::Double, nix::NDSize({4, 3}));
    std::vector<double> v(12);
    for (size_t i = 0; i < 12; i++) v[i] = static_cast<double>(i);
    a2.setData(nix::DataType::Double, v.data(), nix::NDSize({4, 3}), nix::NDSize({0, 0}));
    a2.appendSampledDimension(0.5, "time", "ms", 1.0);
    a2.appendSetDimension(std::vector<std::string>{"a", "b", "c"});
    nix::DataArray a1 = b.createDataArray("zz_range", "t", nix::DataType::Int32, nix::NDSize({5}));
    a1.appendRangeDimension(std::vector<double>{0.0, 1.0, 2.5, 4.0, 8.0}, "x", "s");
    a1.polynomCoefficients({1.0, 2.0});
    a1.expansionOrigin(0.5);
    nix::DataArray as = b.createDataArray("zz_str", "t", nix::DataType::String, nix::NDSize({4}));
    std::vector<std::string> sv = {"one", "two"};
    as.setData(nix::DataType::String, sv.data(), nix::NDSize({2}), nix::NDSize({1}));
    as.appendSetDimension();
    std::vector<nix::Column> cols = {{"c0", "mV", nix::DataType::Double}, {"c1", "", nix::DataType::String}, {"c2", "", nix::DataType::Int32}};
    nix::DataFrame df = b.createDataFrame("zz_frame", "t", cols);
    df.rows(3);
    nix::DataArray af = b.createDataArray("zz_framed", "t", nix::DataType::Float, nix::NDSize({3}));
    af.appendDataFrameDimension(df, 0u);
    nix::Tag tg = b.createTag("zz_tag", "t", {1.5, 0.0});
    tg.extent({1.0, 1.0});
    tg.addReference(a2);
    tg.createFeature(a1, nix::LinkType::Tagged);
    tg.createFeature(as, nix::LinkType::Indexed);
    nix::DataArray pos = b.createDataArray("zz_pos", "t", nix::DataType::Double, nix::NDSize({2, 2}));
    pos.appendSetDimension();
    pos.appendSetDimension();
    nix::MultiTag mt = b.createMultiTag("zz_mtag", "t", pos);
    mt.addReference(a2);
    mt.createFeature(a1, nix::LinkType::Indexed);
    b.createMultiTag("zz_mtag_bare", "t", pos); // no references, no features, no extents
    // positions with a single column for 2-D data: the second dimension is not specified
    nix::DataArray pos1 = b.createDataArray("zz_pos1", "t", nix::DataType::Double, nix::NDSize({3, 1}));
    pos1.appendSetDimension();
    pos1.appendSetDimension();
    nix::MultiTag mtc = b.createMultiTag("zz_mtag_col", "t", pos1);
    mtc.addReference(a2);
    mtc.createFeature(a2, nix::LinkType::Tagged);
    b.createTag("zz_tag_bare", "t", {0.0});
    nix::Group g = b.createGroup("zz_group", "t");
    g.addDataArray(a2);
    g.addTag(tg);
    nix::DataArray ext = b.createDataArray("zz_ext", "t", nix::DataType::Double, nix::NDSize({2, 2}));
    ext.appendSetDimension();
    ext.appendSetDimension();
    mt.extents(ext);
    nix::Source root = b.createSource("zz_source", "t");
    nix::Source c1 = root.createSource("zz_child1", "t"), c2 = root.createSource("zz_child2", "t"), c3 = root.createSource("zz_child3", "t");
    nix::Source g2 = c2.createSource("zz_grandchild", "t");
    a2.addSource(c2);
    tg.addSource(g2);
    mt.addSource(c1);
    g.addSource(c3);
    b.createDataFrame("zz_frame2", "t", cols);
    // members whose names differ only in case / in a blank / look like an id
    nix::DataArray c1a = b.createDataArray("zz_case", "t", nix::DataType::Double, nix::NDSize({1}));
    nix::DataArray c2a = b.createDataArray("ZZ_CASE", "t", nix::DataType::Double, nix::NDSize({1}));
    b.createDataArray("zz_case ", "t", nix::DataType::Double, nix::NDSize({1}));
    nix::DataArray ua = b.createDataArray("abcdef01-2345-6789-abcd-ef0123456789", "t", nix::DataType::Double, nix::NDSize({1}));
    g.addDataArray(c2a);
    g.addDataArray(ua);
    nix::Tag t1 = b.createTag("zz_Tag", "t", {0.0}), t2 = b.createTag("ZZ_TAG", "t", {0.0});
    g.addTag(t2);
    t1.addReference(c1a);
    t1.addReference(ua);
    // a block without tags, multi tags and groups
    nix::Block pb = f.createBlock("zz_plain", "t");
    nix::DataFrame pf = pb.createDataFrame("p_frame", "t", cols);
    pf.rows(3);
    nix::DataArray pa = pb.createDataArray("p_arr", "t", nix::DataType::Double, nix::NDSize({3}));
    pa.appendDataFrameDimension(pf);
    nix::DataArray pa2 = pb.createDataArray("p_arr2", "t", nix::DataType::Int32, nix::NDSize({3, 2}));
    pa2.appendDataFrameDimension(pf, 0u);
    pa2.appendSetDimension();
    pa2.addSource(pb.createSource("p_source", "t"));
    nix::Section s = f.createSection("zz_section", "t");
    s.createProperty("zz_prop", nix::Variant(1.5));
    nix::Section sub = s.createSection("zz_sub", "t");
    nix::Section s2 = f.createSection("zz_section2", "t");
    sub.link(s2);
    s2.link(s);
    b.metadata(s);
    a2.metadata(sub);
    tg.metadata(s2);
    mt.metadata(s);
    root.metadata(sub);
}


struct StepInfo {
    std::string op;          // operation kind
    std::string bad;         // class of invalid argument, "" if all arguments are in contract
    bool threw = false;
    std::string extype;
    bool mutator = true;     // may change the file if it succeeds
    bool is_delete = false, is_create = false, is_unlink = false, is_link = false, is_reopen = false, is_flush = false;
    bool order_reset = false; // vector-replace style operation: member order of the touched list is re-created
    std::string victim_id;   // id of the entity a delete op removed (if it returned true)
    bool returned_true = false;
};

struct Prog {
    Tape &t;
    std::ostream &tr;
    Profile prof;
    std::string path, path2;
    nix::File f, other;
    bool readonly = false;
    nix::FileMode mode = nix::FileMode::ReadWrite;
    // handles kept alive (stale after delete / close) for out-of-contract use
    std::vector<nix::DataArray> deadArrays;
    std::vector<nix::Section> deadSections;
    std::vector<nix::Source> deadSources;
    std::vector<nix::Tag> deadTags;
    std::vector<nix::DataFrame> deadFrames;
    size_t name_counter = 0;
    bool allow_reopen = true;
    std::map<std::string, uint64_t> *classes = nullptr;

    Prog(Tape &tt, std::ostream &trace, Profile p) : t(tt), tr(trace), prof(p) {}

    // ---------------------------------------------------------------------------------
    void start(const std::string &p, const std::string &p2) {
        path = p;
        path2 = p2;
        f = nix::File::open(path, nix::FileMode::Overwrite, "hdf5", t.flip() ? nix::Compression::DeflateNormal : nix::Compression::None);
        if (prof != Profile::Valid) {
            other = nix::File::open(path2, nix::FileMode::Overwrite);
            nix::Block ob = other.createBlock("ob", "t");
            nix::DataArray oa = ob.createDataArray("oa", "t", nix::DataType::Double, nix::NDSize({2}));
            ob.createTag("ot", "t", {0.0});
            ob.createSource("os", "t");
            std::vector<nix::Column> cols = {{"c", "", nix::DataType::Double}};
            ob.createDataFrame("of", "t", cols);
            ob.createMultiTag("om", "t", oa);
            other.createSection("osec", "t");
        }
    }
    void finish() {
        // harness hygiene: release every handle the program kept before the files are closed (what happens to
        // handles that outlive close() is C11's subject and is exercised there on purpose)
        dropHeld();
        deadArrays.clear();
        deadSections.clear();
        deadSources.clear();
        deadTags.clear();
        deadFrames.clear();
        try { if (f && f.isOpen()) f.close(); } catch (...) {}
        try { if (other && other.isOpen()) other.close(); } catch (...) {}
    }

    // ---------------------------------------------------------------------------------
    // names and types
    std::string goodName() {
        static const char *pool[] = {"a", "b", "c", "d", "A", " a", "a ", "..", "\xc3\xa4", "\xce\xb1 \xce\xb2",
                                     "01234567-89ab-cdef-0123-456789abcdef", "x.y", "a%b", "aaaaaaaa-bbbb-cccc-dddd-eeeeeeeeeeee", "n"};
        size_t k = t.below(sizeof pool / sizeof pool[0]);
        std::string s = pool[k];
        if (t.chance(35)) s += std::to_string(t.below(4));
        return s;
    }
    std::string name(std::string &bad) {
        if (prof != Profile::Valid && t.chance(6)) {
            switch (t.below(3)) {
            case 0: bad = "empty_name"; return "";
            case 1: bad = "slash_name"; return "a/b";
            default: bad = "slash_name"; return "/";
            }
        }
        return goodName();
    }
    // an attempted duplicate: the name of an existing sibling (every create must refuse it)
    template <typename Count, typename Get> std::string maybeDuplicate(const std::string &n, std::string &bad, Count count, Get get) {
        if (!bad.empty() || !t.chance(12)) return n;
        size_t k = count();
        if (!k) return n;
        bad = "duplicate_name";
        return get(t.below(static_cast<uint32_t>(k))).name();
    }
    // units that are refused as written: plain nonsense, or spellings that only become SI after sanitising
    // (blanks, "mu" for micro) - the append calls and the setters must agree on what they accept
    std::string badUnit() {
        static const char *pool[] = {"foo", "bar", "sec", " ms ", "mus", "muV", "m s", "Volt"};
        return pool[t.below(8)];
    }
    std::string type(std::string &bad) {
        if (prof != Profile::Valid && t.chance(4)) {
            bad = "empty_type";
            return "";
        }
        static const char *pool[] = {"t", "typeA", "nix.test", "typeB"};
        return pool[t.below(4)];
    }

    // ---------------------------------------------------------------------------------
    // operand selection from the live file
    template <typename E> E reuseTop(std::vector<E> &cache, E fresh) {
        if (!cache.empty() && t.chance(40)) {
            E c = cache[t.below(static_cast<uint32_t>(cache.size()))];
            bool ok = false;
            try { ok = c && c.isValidEntity(); } catch (const std::exception &) { ok = false; }
            if (ok) return c;
        }
        if (fresh) {
            if (cache.size() < 3) cache.push_back(fresh);
            else cache[t.below(3)] = fresh;
        }
        return fresh;
    }
    std::vector<nix::Block> heldBlocks;
    std::vector<nix::Section> heldSections;
    std::vector<nix::Source> heldSources;
    // two long-lived handles per block (a user may well hold two handles to one parent): most steps on a block
    // go through one of them, so that what one handle did is seen - or not - by the other
    std::map<std::string, std::vector<nix::Block>> blockHandles;
    // a user who holds a handle looks at it: every kept block handle is asked for its counts
    void lookThroughKeptHandles() {
        for (auto &kv : blockHandles)
            for (auto &h : kv.second) {
                try {
                    if (!h || !h.isValidEntity()) continue;
                    (void)h.dataArrayCount(); (void)h.dataFrameCount(); (void)h.tagCount(); (void)h.multiTagCount(); (void)h.groupCount(); (void)h.sourceCount();
                } catch (const std::exception &) {
                }
            }
    }
    nix::Block blk() {
        size_t n = f.blockCount();
        if (!n) return nix::Block();
        nix::Block fresh = f.getBlock(t.below(static_cast<uint32_t>(n)));
        auto &v = blockHandles[fresh.id()];
        if (v.size() < 2) {
            v.push_back(fresh);
            return fresh;
        }
        size_t k = t.pick({2, 2, 1});
        if (k == 2) return fresh;
        bool ok = false;
        try { ok = v[k] && v[k].isValidEntity(); } catch (const std::exception &) { ok = false; }
        if (!ok) v[k] = fresh;
        return v[k];
    }
    nix::Block blkOther(const nix::Block &b) {
        size_t n = f.blockCount();
        for (size_t i = 0; i < n; i++) {
            nix::Block o = f.getBlock(i);
            if (o.id() != b.id()) return o;
        }
        return nix::Block();
    }
    // Some operands are handles obtained in earlier steps (a user keeps handles around): state that a
    // backend object caches per handle only matters when the same handle is used again.
    template <typename E> E reuse(std::vector<std::pair<std::string, E>> &cache, const nix::Block &b, E fresh) {
        std::string bid = b.id();
        if (!cache.empty() && t.chance(50)) {
            auto &c = cache[t.below(static_cast<uint32_t>(cache.size()))];
            bool ok = false;
            try { ok = c.first == bid && c.second && c.second.isValidEntity(); } catch (const std::exception &) { ok = false; }
            if (ok) return c.second;
        }
        if (fresh) {
            if (cache.size() < 3) cache.emplace_back(bid, fresh);
            else cache[t.below(3)] = std::make_pair(bid, fresh);
        }
        return fresh;
    }
    std::vector<std::pair<std::string, nix::DataArray>> heldArrays;
    std::vector<std::pair<std::string, nix::Tag>> heldTags;
    std::vector<std::pair<std::string, nix::MultiTag>> heldMTags;
    std::vector<std::pair<std::string, nix::Group>> heldGroups;
    // the handle returned by a create call is a handle a user keeps, too
    template <typename E> void keepCreated(std::vector<std::pair<std::string, E>> &cache, const nix::Block &b, E created) {
        if (!created || getenv("VERIF_NOKEEP")) return;
        if (cache.size() < 3) cache.emplace_back(b.id(), created);
        else cache[name_counter++ % 3] = std::make_pair(b.id(), created);
    }

    nix::DataArray arr(const nix::Block &b) {
        if (!b) return nix::DataArray();
        size_t n = b.dataArrayCount();
        return reuse(heldArrays, b, n ? b.getDataArray(t.below(static_cast<uint32_t>(n))) : nix::DataArray());
    }
    nix::DataFrame frm(const nix::Block &b) {
        if (!b) return nix::DataFrame();
        size_t n = b.dataFrameCount();
        return n ? b.getDataFrame(t.below(static_cast<uint32_t>(n))) : nix::DataFrame();
    }
    nix::Tag tag(const nix::Block &b) {
        if (!b) return nix::Tag();
        size_t n = b.tagCount();
        return reuse(heldTags, b, n ? b.getTag(t.below(static_cast<uint32_t>(n))) : nix::Tag());
    }
    nix::MultiTag mtag(const nix::Block &b) {
        if (!b) return nix::MultiTag();
        size_t n = b.multiTagCount();
        return reuse(heldMTags, b, n ? b.getMultiTag(t.below(static_cast<uint32_t>(n))) : nix::MultiTag());
    }
    nix::Group grp(const nix::Block &b) {
        if (!b) return nix::Group();
        size_t n = b.groupCount();
        return reuse(heldGroups, b, n ? b.getGroup(t.below(static_cast<uint32_t>(n))) : nix::Group());
    }
    nix::Source src(const nix::Block &b, size_t *depth = nullptr) {
        if (!b) return nix::Source();
        size_t n = b.sourceCount();
        if (!n) return nix::Source();
        nix::Source s = b.getSource(t.below(static_cast<uint32_t>(n)));
        size_t d = 1;
        while (s.sourceCount() > 0 && t.chance(50)) {
            s = s.getSource(t.below(static_cast<uint32_t>(s.sourceCount())));
            d++;
        }
        if (depth) *depth = d;
        // a source handle kept from an earlier step (only where the caller does not need the depth)
        if (!depth) return reuseTop(heldSources, s);
        return s;
    }
    nix::Section sec(size_t *depth = nullptr) {
        size_t n = f.sectionCount();
        if (!n) return nix::Section();
        nix::Section s = f.getSection(t.below(static_cast<uint32_t>(n)));
        size_t d = 1;
        while (s.sectionCount() > 0 && t.chance(50)) {
            s = s.getSection(t.below(static_cast<uint32_t>(s.sectionCount())));
            d++;
        }
        if (depth) *depth = d;
        if (!depth) return reuseTop(heldSections, s);
        return s;
    }
    nix::Property prop(const nix::Section &s) {
        if (!s) return nix::Property();
        size_t n = s.propertyCount();
        return n ? s.getProperty(t.below(static_cast<uint32_t>(n))) : nix::Property();
    }

    // a DataArray argument: in contract = from block b; otherwise one of the rejection classes
    nix::DataArray arrArg(const nix::Block &b, std::string &bad) {
        if (prof != Profile::Valid && t.chance(30)) {
            switch (t.below(4)) {
            case 0: {
                nix::Block o = blkOther(b);
                nix::DataArray a = arr(o);
                if (a) { bad = "target_in_other_block"; return a; }
                break;
            }
            case 1: {
                nix::Block ob = other.getBlock("ob");
                bad = "target_in_other_file";
                return ob.getDataArray("oa");
            }
            case 2:
                if (!deadArrays.empty()) { bad = "target_deleted"; return deadArrays[t.below(static_cast<uint32_t>(deadArrays.size()))]; }
                break;
            default: bad = "target_uninitialized"; return nix::DataArray();
            }
        }
        return arr(b);
    }
    nix::Section secArg(std::string &bad) {
        if (prof != Profile::Valid && t.chance(30)) {
            switch (t.below(3)) {
            case 0: bad = "target_in_other_file"; return other.getSection("osec");
            case 1:
                if (!deadSections.empty()) { bad = "target_deleted"; return deadSections[t.below(static_cast<uint32_t>(deadSections.size()))]; }
                break;
            default: bad = "target_uninitialized"; return nix::Section();
            }
        }
        return sec();
    }
    nix::Source srcArg(const nix::Block &b, std::string &bad) {
        if (prof != Profile::Valid && t.chance(30)) {
            switch (t.below(4)) {
            case 0: {
                nix::Block o = blkOther(b);
                nix::Source s = src(o);
                if (s) { bad = "target_in_other_block"; return s; }
                break;
            }
            case 1: bad = "target_in_other_file"; return other.getBlock("ob").getSource("os");
            case 2:
                if (!deadSources.empty()) { bad = "target_deleted"; return deadSources[t.below(static_cast<uint32_t>(deadSources.size()))]; }
                break;
            default: bad = "target_uninitialized"; return nix::Source();
            }
        }
        return src(b);
    }

    std::vector<double> dvec(size_t maxn, bool nonempty = false) {
        size_t n = (nonempty ? 1 : 0) + t.below(static_cast<uint32_t>(maxn));
        std::vector<double> v;
        for (size_t i = 0; i < n; i++) v.push_back(t.chance(60) ? static_cast<double>(t.range(-3, 6)) : (t.unit() - 0.5) * 20.0);
        return v;
    }

    static std::string idOf(const std::string &bad_, const std::string &id) { (void)bad_; return id; }

    // ---------------------------------------------------------------------------------
    // one step
    StepInfo step() {
        StepInfo si;
        try {
            dispatch(si);
        } catch (const Violation &) {
            throw;
        } catch (const std::exception &e) {
            si.threw = true;
            si.extype = typeid(e).name();
        }
        tr << si.op;
        if (!si.bad.empty()) tr << "{" << si.bad << "}";
        if (si.threw) tr << "!";
        tr << " ";
        return si;
    }

    void dropHeld() {
        heldArrays.clear();
        heldTags.clear();
        heldMTags.clear();
        heldGroups.clear();
        heldBlocks.clear();
        blockHandles.clear();
        heldSections.clear();
        heldSources.clear();
    }
    void reopen(StepInfo &si) {
        dropHeld();
        si.op = "reopen";
        si.is_reopen = true;
        si.mutator = false;
        f.close();
        f = nix::File::open(path, mode);
    }

    template <typename E> void namedOps(E e, StepInfo &si, const char *kind) {
        // type / definition setters shared by all named entities
        switch (t.below(3)) {
        case 0: {
            std::string ty = type(si.bad);
            si.op = std::string(kind) + ".type";
            e.type(ty);
            break;
        }
        case 1: {
            static const char *defs[] = {"def", "a definition", "\xc3\xa4", ""};
            std::string d = defs[t.below(prof == Profile::Valid ? 3 : 4)];
            if (d.empty()) si.bad = "empty_definition";
            si.op = std::string(kind) + ".definition";
            e.definition(d);
            break;
        }
        default:
            si.op = std::string(kind) + ".definition(none)";
            e.definition(nix::none);
            break;
        }
    }

    template <typename E> void metaOps(E e, StepInfo &si, const char *kind) {
        if (t.chance(70)) {
            nix::Section s = secArg(si.bad);
            si.is_link = true;
            if (t.flip() || !s) {
                si.op = std::string(kind) + ".metadata(section)";
                if (!s && si.bad.empty()) si.bad = "target_uninitialized";
                e.metadata(s);
            } else {
                si.op = std::string(kind) + ".metadata(id)";
                std::string id = s.id();
                if (prof != Profile::Valid && t.chance(10)) { id = "no-such-id"; si.bad = "target_unknown_id"; }
                e.metadata(id);
            }
        } else {
            si.op = std::string(kind) + ".metadata(none)";
            si.is_unlink = true;
            e.metadata(nix::none);
        }
    }

    template <typename E> void sourceOps(E e, const nix::Block &b, StepInfo &si, const char *kind) {
        switch (t.pick({5, 3, 2})) {
        case 0: {
            nix::Source s = srcArg(b, si.bad);
            si.is_link = true;
            if (t.flip() || !s) {
                si.op = std::string(kind) + ".addSource(source)";
                if (!s && si.bad.empty()) si.bad = "target_uninitialized";
                e.addSource(s);
            } else {
                si.op = std::string(kind) + ".addSource(id)";
                e.addSource(s.id());
            }
            break;
        }
        case 1: {
            si.is_unlink = true;
            size_t n = e.sourceCount();
            if (n == 0) {
                si.op = std::string(kind) + ".removeSource(absent)";
                nix::Source s = src(b);
                si.returned_true = s ? e.removeSource(s) : e.removeSource(std::string("nothing"));
            } else {
                nix::Source s = e.getSource(t.below(static_cast<uint32_t>(n)));
                si.op = std::string(kind) + ".removeSource";
                si.returned_true = t.flip() ? e.removeSource(s) : e.removeSource(s.id());
            }
            break;
        }
        default: {
            // vector setter
            std::vector<nix::Source> v;
            size_t n = t.below(4);
            for (size_t i = 0; i < n; i++) {
                nix::Source s = srcArg(b, si.bad);
                if (s) v.push_back(s);
            }
            si.op = std::string(kind) + ".sources(vector)";
            si.order_reset = true;
            si.is_link = true;
            e.sources(v);
            break;
        }
        }
    }

    template <typename T> void tagOps(T tg, const nix::Block &b, StepInfo &si, const char *kind) {
        switch (t.pick({5, 3, 2, 4, 2, 2, 2, 2, 2})) {
        case 0: {
            nix::DataArray a = arrArg(b, si.bad);
            si.is_link = true;
            if (t.flip() || !a) {
                si.op = std::string(kind) + ".addReference(array)";
                if (!a && si.bad.empty()) si.bad = "target_uninitialized";
                tg.addReference(a);
            } else {
                si.op = std::string(kind) + ".addReference(id)";
                tg.addReference(t.flip() ? a.id() : a.name());
            }
            break;
        }
        case 1: {
            si.is_unlink = true;
            size_t n = tg.referenceCount();
            if (n == 0) {
                si.op = std::string(kind) + ".removeReference(absent)";
                nix::DataArray a = arr(b);
                si.returned_true = a ? tg.removeReference(a) : tg.removeReference(std::string("nothing"));
            } else {
                nix::DataArray a = tg.getReference(t.below(static_cast<uint32_t>(n)));
                si.op = std::string(kind) + ".removeReference";
                si.returned_true = t.flip() ? tg.removeReference(a) : tg.removeReference(a.id());
            }
            break;
        }
        case 2: {
            std::vector<nix::DataArray> v;
            size_t n = t.below(4);
            for (size_t i = 0; i < n; i++) {
                nix::DataArray a = arrArg(b, si.bad);
                if (a) v.push_back(a);
            }
            si.op = std::string(kind) + ".references(vector)";
            si.order_reset = true;
            si.is_link = true;
            tg.references(v);
            break;
        }
        case 3: {
            nix::DataArray a = arrArg(b, si.bad);
            nix::LinkType lt = static_cast<nix::LinkType>(t.below(3));
            si.is_link = true;
            si.is_create = true;
            if (t.flip() || !a) {
                si.op = std::string(kind) + ".createFeature(array)";
                if (!a && si.bad.empty()) si.bad = "target_uninitialized";
                tg.createFeature(a, lt);
            } else {
                si.op = std::string(kind) + ".createFeature(id)";
                tg.createFeature(a.id(), lt);
            }
            break;
        }
        case 4: {
            size_t n = tg.featureCount();
            si.is_delete = true;
            if (n == 0) {
                si.op = std::string(kind) + ".deleteFeature(absent)";
                si.returned_true = tg.deleteFeature(std::string("nothing"));
            } else {
                nix::Feature ft = tg.getFeature(t.below(static_cast<uint32_t>(n)));
                si.op = std::string(kind) + ".deleteFeature";
                std::string id = ft.id();
                si.returned_true = t.flip() ? tg.deleteFeature(ft) : tg.deleteFeature(id);
                if (si.returned_true) si.victim_id = id;
            }
            break;
        }
        case 5: {
            size_t n = tg.featureCount();
            if (n == 0) { si.op = "noop"; si.mutator = false; break; }
            nix::Feature ft = tg.getFeature(t.below(static_cast<uint32_t>(n)));
            if (t.flip()) {
                si.op = std::string(kind) + ".feature.linkType";
                ft.linkType(static_cast<nix::LinkType>(t.below(3)));
            } else {
                nix::DataArray a = arrArg(b, si.bad);
                si.op = std::string(kind) + ".feature.data";
                si.is_link = true;
                if (!a && si.bad.empty()) si.bad = "target_uninitialized";
                if (t.flip() || !a) ft.data(a); else ft.data(a.id());
            }
            break;
        }
        case 6: {
            static const char *good[] = {"s", "ms", "mV", "Hz", "m"};
            static const char *badu[] = {"foo", "sec", "m/s", "V*A"};
            std::vector<std::string> u;
            size_t n = t.below(4);
            for (size_t i = 0; i < n; i++) {
                if (prof != Profile::Valid && t.chance(20)) { u.push_back(badu[t.below(4)]); si.bad = "non_si_unit"; }
                else u.push_back(good[t.below(5)]);
            }
            si.op = std::string(kind) + ".units";
            tg.units(u);
            break;
        }
        case 7: sourceOps(tg, b, si, kind); break;
        default:
            if (t.flip()) metaOps(tg, si, kind); else namedOps(tg, si, kind);
            break;
        }
    }

    void dispatch(StepInfo &si) {
        size_t top = t.pick({6 /*file*/, 16 /*block-level create*/, 9 /*delete*/, 12 /*array*/, 10 /*tag*/, 8 /*mtag*/, 8 /*group*/, 7 /*source*/,
                             12 /*section*/, 5 /*frame*/, static_cast<uint32_t>(allow_reopen ? 3 : 0) /*reopen*/, 2 /*flush*/, 3 /*block attr*/});
        nix::Block b = blk();
        switch (top) {
        case 0: { // ---- file level ----------------------------------------------------------
            if (t.flip()) {
                std::string n = name(si.bad), ty = type(si.bad);
                n = maybeDuplicate(n, si.bad, [&] { return f.blockCount(); }, [&](size_t i) { return f.getBlock(i); });
                si.op = "File.createBlock";
                si.is_create = true;
                nix::Block nb = f.createBlock(n, ty);
                blockHandles[nb.id()].push_back(nb);
            } else {
                std::string n = name(si.bad), ty = type(si.bad);
                n = maybeDuplicate(n, si.bad, [&] { return f.sectionCount(); }, [&](size_t i) { return f.getSection(i); });
                si.op = "File.createSection";
                si.is_create = true;
                f.createSection(n, ty);
            }
            break;
        }
        case 1: { // ---- create inside a block -------------------------------------------------
            if (!b) { std::string n = name(si.bad), ty = type(si.bad); si.op = "File.createBlock"; si.is_create = true; f.createBlock(n, ty); break; }
            std::string n = name(si.bad), ty = type(si.bad);
            si.is_create = true;
            // the names of the existing siblings are read through a fresh handle of the block: the handle `b`
            // may be one that was obtained long ago
            nix::Block fb = f.getBlock(b.id());
            switch (t.pick({6, 2, 3, 3, 2, 3})) {
            case 0: {
                static const nix::DataType dts[] = {nix::DataType::Double, nix::DataType::Int32, nix::DataType::String, nix::DataType::Bool,
                                                    nix::DataType::UInt8, nix::DataType::Float, nix::DataType::Int64};
                nix::DataType dt = dts[t.below(7)];
                size_t rank = 1 + t.below(3);
                if (prof != Profile::Valid && t.chance(10)) {
                    if (t.flip()) { dt = t.flip() ? nix::DataType::Char : nix::DataType::Nothing; si.bad = "unsupported_dtype"; }
                    else { rank = 0; si.bad = "rank0"; }
                }
                nix::NDSize shape(rank, 1);
                for (size_t i = 0; i < rank; i++) shape[i] = 1 + t.below(4);
                n = maybeDuplicate(n, si.bad, [&] { return fb.dataArrayCount(); }, [&](size_t i) { return fb.getDataArray(i); });
                si.op = "Block.createDataArray";
                keepCreated(heldArrays, b, b.createDataArray(n, ty, dt, shape, static_cast<nix::Compression>(t.below(3))));
                break;
            }
            case 1: {
                std::vector<nix::Column> cols;
                size_t nc = 1 + t.below(3);
                for (size_t i = 0; i < nc; i++) {
                    nix::Column c;
                    c.name = "c" + std::to_string(i);
                    c.unit = i ? "mV" : "";
                    c.dtype = i % 2 ? nix::DataType::Int32 : (i ? nix::DataType::String : nix::DataType::Double);
                    cols.push_back(c);
                }
                if (prof != Profile::Valid && t.chance(15)) {
                    if (t.flip()) { cols[0].dtype = nix::DataType::Nothing; si.bad = "unsupported_dtype"; }
                    else { cols.push_back(cols[0]); si.bad = "duplicate_column"; }
                }
                n = maybeDuplicate(n, si.bad, [&] { return fb.dataFrameCount(); }, [&](size_t i) { return fb.getDataFrame(i); });
                si.op = "Block.createDataFrame";
                b.createDataFrame(n, ty, cols);
                break;
            }
            case 2: {
                std::vector<double> pos = dvec(3, true);
                n = maybeDuplicate(n, si.bad, [&] { return fb.tagCount(); }, [&](size_t i) { return fb.getTag(i); });
                si.op = "Block.createTag";
                keepCreated(heldTags, b, b.createTag(n, ty, pos));
                break;
            }
            case 3: {
                nix::DataArray a = arrArg(b, si.bad);
                si.op = "Block.createMultiTag";
                si.is_link = true;
                if (!a && si.bad.empty()) si.bad = "target_uninitialized";
                n = maybeDuplicate(n, si.bad, [&] { return fb.multiTagCount(); }, [&](size_t i) { return fb.getMultiTag(i); });
                keepCreated(heldMTags, b, b.createMultiTag(n, ty, a));
                break;
            }
            case 4: n = maybeDuplicate(n, si.bad, [&] { return fb.groupCount(); }, [&](size_t i) { return fb.getGroup(i); }); si.op = "Block.createGroup"; keepCreated(heldGroups, b, b.createGroup(n, ty)); break;
            default: n = maybeDuplicate(n, si.bad, [&] { return fb.sourceCount(); }, [&](size_t i) { return fb.getSource(i); }); si.op = "Block.createSource"; b.createSource(n, ty); break;
            }
            break;
        }
        case 2: { // ---- delete --------------------------------------------------------------
            si.is_delete = true;
            size_t how = t.below(3); // by name, by id, by handle
            switch (t.pick({2, 5, 2, 3, 3, 2, 3, 4, 2})) {
            case 0: {
                if (!b) { si.op = "File.deleteBlock(absent)"; si.returned_true = f.deleteBlock(std::string("nothing")); break; }
                std::string id = b.id(), nm = b.name();
                si.op = "File.deleteBlock";
                si.returned_true = how == 0 ? f.deleteBlock(nm) : how == 1 ? f.deleteBlock(id) : f.deleteBlock(b);
                if (si.returned_true) si.victim_id = id;
                break;
            }
            case 1: {
                nix::DataArray a = arr(b);
                if (!a) { si.op = "Block.deleteDataArray(absent)"; if (b) si.returned_true = b.deleteDataArray(std::string("nothing")); else si.mutator = false; break; }
                std::string id = a.id(), nm = a.name();
                deadArrays.push_back(a);
                si.op = "Block.deleteDataArray";
                si.returned_true = how == 0 ? b.deleteDataArray(nm) : how == 1 ? b.deleteDataArray(id) : b.deleteDataArray(a);
                if (si.returned_true) si.victim_id = id;
                break;
            }
            case 2: {
                nix::DataFrame a = frm(b);
                if (!a) { si.op = "Block.deleteDataFrame(absent)"; if (b) si.returned_true = b.deleteDataFrame(std::string("nothing")); else si.mutator = false; break; }
                std::string id = a.id(), nm = a.name();
                deadFrames.push_back(a);
                si.op = "Block.deleteDataFrame";
                si.returned_true = how == 0 ? b.deleteDataFrame(nm) : how == 1 ? b.deleteDataFrame(id) : b.deleteDataFrame(a);
                if (si.returned_true) si.victim_id = id;
                break;
            }
            case 3: {
                nix::Tag a = tag(b);
                if (!a) { si.op = "Block.deleteTag(absent)"; if (b) si.returned_true = b.deleteTag(std::string("nothing")); else si.mutator = false; break; }
                std::string id = a.id(), nm = a.name();
                deadTags.push_back(a);
                si.op = "Block.deleteTag";
                si.returned_true = how == 0 ? b.deleteTag(nm) : how == 1 ? b.deleteTag(id) : b.deleteTag(a);
                if (si.returned_true) si.victim_id = id;
                break;
            }
            case 4: {
                nix::MultiTag a = mtag(b);
                if (!a) { si.op = "Block.deleteMultiTag(absent)"; if (b) si.returned_true = b.deleteMultiTag(std::string("nothing")); else si.mutator = false; break; }
                std::string id = a.id(), nm = a.name();
                si.op = "Block.deleteMultiTag";
                si.returned_true = how == 0 ? b.deleteMultiTag(nm) : how == 1 ? b.deleteMultiTag(id) : b.deleteMultiTag(a);
                if (si.returned_true) si.victim_id = id;
                break;
            }
            case 5: {
                nix::Group a = grp(b);
                if (!a) { si.op = "Block.deleteGroup(absent)"; if (b) si.returned_true = b.deleteGroup(std::string("nothing")); else si.mutator = false; break; }
                std::string id = a.id(), nm = a.name();
                si.op = "Block.deleteGroup";
                si.returned_true = how == 0 ? b.deleteGroup(nm) : how == 1 ? b.deleteGroup(id) : b.deleteGroup(a);
                if (si.returned_true) si.victim_id = id;
                break;
            }
            case 6: {
                size_t d = 0;
                nix::Source s = src(b, &d);
                if (!s) { si.op = "Block.deleteSource(absent)"; if (b) si.returned_true = b.deleteSource(std::string("nothing")); else si.mutator = false; break; }
                std::string id = s.id(), nm = s.name();
                deadSources.push_back(s);
                if (d == 1) {
                    si.op = "Block.deleteSource";
                    si.returned_true = how == 0 ? b.deleteSource(nm) : how == 1 ? b.deleteSource(id) : b.deleteSource(s);
                } else {
                    nix::Source p = s.parentSource();
                    si.op = "Source.deleteSource";
                    si.returned_true = how == 0 ? p.deleteSource(nm) : how == 1 ? p.deleteSource(id) : p.deleteSource(s);
                }
                if (si.returned_true) si.victim_id = id;
                break;
            }
            case 7: {
                size_t d = 0;
                nix::Section s = sec(&d);
                if (!s) { si.op = "File.deleteSection(absent)"; si.returned_true = f.deleteSection(std::string("nothing")); break; }
                std::string id = s.id(), nm = s.name();
                deadSections.push_back(s);
                if (d == 1) {
                    si.op = "File.deleteSection";
                    si.returned_true = how == 0 ? f.deleteSection(nm) : how == 1 ? f.deleteSection(id) : f.deleteSection(s);
                } else {
                    nix::Section p = s.parent();
                    si.op = "Section.deleteSection";
                    si.returned_true = how == 0 ? p.deleteSection(nm) : how == 1 ? p.deleteSection(id) : p.deleteSection(s);
                }
                if (si.returned_true) si.victim_id = id;
                break;
            }
            default: {
                nix::Section s = sec();
                nix::Property p = prop(s);
                if (!p) { si.op = "Section.deleteProperty(absent)"; if (s) si.returned_true = s.deleteProperty(std::string("nothing")); else si.mutator = false; break; }
                std::string id = p.id(), nm = p.name();
                si.op = "Section.deleteProperty";
                si.returned_true = how == 0 ? s.deleteProperty(nm) : how == 1 ? s.deleteProperty(id) : s.deleteProperty(p);
                if (si.returned_true) si.victim_id = id;
                break;
            }
            }
            break;
        }
        case 3: { // ---- data array ------------------------------------------------------------
            nix::DataArray a = arr(b);
            if (!a) { si.op = "noop"; si.mutator = false; break; }
            switch (t.pick({3, 3, 3, 3, 2, 4, 2, 3, 3, 2, 3})) {
            case 10: {
                // append a block along an axis: all other extents have to match
                nix::NDSize ext = a.dataExtent();
                size_t R = ext.size();
                if (R == 0) { si.op = "noop"; si.mutator = false; break; }
                size_t axis = t.below(static_cast<uint32_t>(R));
                nix::NDSize cnt = ext;
                cnt[axis] = 1 + t.below(3);
                if (prof != Profile::Valid && t.chance(40)) {
                    switch (t.below(3)) {
                    case 0: { size_t d = t.below(static_cast<uint32_t>(R)); if (d != axis) { cnt[d] = ext[d] + 1 + t.below(2); si.bad = "shape_mismatch"; } else { axis = R + t.below(2); si.bad = "axis_out_of_range"; } break; }
                    case 1: cnt = nix::NDSize(R + 1, 1); si.bad = "wrong_rank"; break;
                    default: axis = R + t.below(3); si.bad = "axis_out_of_range"; break;
                    }
                }
                uint64_t n = 1;
                for (size_t d = 0; d < cnt.size(); d++) n *= cnt[d];
                si.op = "DataArray.appendData";
                if (n == 0 || n > 4096) { si.op = "noop"; si.mutator = false; si.bad.clear(); break; }
                nix::DataType dt = a.dataType();
                if (dt == nix::DataType::String) { std::vector<std::string> v(n, "ap"); a.appendData(dt, v.data(), cnt, axis); }
                else if (dt == nix::DataType::Bool) { std::unique_ptr<bool[]> v(new bool[n]); for (uint64_t i = 0; i < n; i++) v[i] = true; a.appendData(dt, v.get(), cnt, axis); }
                else { std::vector<double> v(n, 7.0); a.appendData(nix::DataType::Double, v.data(), cnt, axis); }
                break;
            }
            case 0: {
                static const char *labs[] = {"voltage", "l", "\xc3\xa4", ""};
                std::string l = labs[t.below(prof == Profile::Valid ? 3 : 4)];
                if (l.empty()) si.bad = "empty_label";
                si.op = "DataArray.label";
                if (t.chance(15)) { si.op = "DataArray.label(none)"; si.bad.clear(); a.label(nix::none); } else a.label(l);
                break;
            }
            case 1: {
                static const char *us[] = {"mV", "s", "foo", "m/s", "Hz", ""};
                std::string u = us[t.below(prof == Profile::Valid ? 5 : 6)];
                if (u.empty()) si.bad = "empty_unit";
                si.op = "DataArray.unit";
                if (t.chance(15)) { si.op = "DataArray.unit(none)"; si.bad.clear(); a.unit(nix::none); } else a.unit(u);
                break;
            }
            case 2: {
                // write a block of doubles (HDF5 converts to the stored type); strings for String arrays
                nix::NDSize ext = a.dataExtent();
                nix::NDSize off(ext.size(), 0), cnt(ext.size(), 1);
                size_t n = 1;
                for (size_t i = 0; i < ext.size(); i++) {
                    if (ext[i] == 0) { n = 0; break; }
                    off[i] = t.below(static_cast<uint32_t>(ext[i]));
                    cnt[i] = 1 + t.below(static_cast<uint32_t>(ext[i] - off[i]));
                    n *= cnt[i];
                }
                if (prof != Profile::Valid && t.chance(15) && ext.size() > 0) {
                    if (t.flip()) { off[0] = ext[0]; si.bad = "offset_outside_data"; }
                    else { cnt = nix::NDSize(ext.size() + 1, 1); si.bad = "wrong_rank"; n = 1; }
                }
                si.op = "DataArray.setData(block)";
                if (n == 0) { si.op = "noop"; si.mutator = false; break; }
                nix::DataType dt = a.dataType();
                if (dt == nix::DataType::String) {
                    std::vector<std::string> v(n, "s" + std::to_string(t.below(10)));
                    a.setData(dt, v.data(), cnt, off);
                } else if (dt == nix::DataType::Bool) {
                    std::unique_ptr<bool[]> v(new bool[n]);
                    for (size_t i = 0; i < n; i++) v[i] = t.flip();
                    a.setData(dt, v.get(), cnt, off);
                } else {
                    std::vector<double> v(n);
                    for (size_t i = 0; i < n; i++) v[i] = static_cast<double>(t.below(100));
                    a.setData(nix::DataType::Double, v.data(), cnt, off);
                }
                break;
            }
            case 3: {
                nix::NDSize ext = a.dataExtent();
                nix::NDSize ne(ext.size(), 0);
                for (size_t i = 0; i < ext.size(); i++) ne[i] = t.below(6);
                if (prof != Profile::Valid && t.chance(20)) { ne = nix::NDSize(ext.size() + 1, 2); si.bad = "wrong_rank"; }
                si.op = "DataArray.dataExtent";
                a.dataExtent(ne);
                break;
            }
            case 4: {
                if (t.flip()) {
                    si.op = "DataArray.polynomCoefficients";
                    if (t.chance(25)) a.polynomCoefficients(nix::none); else a.polynomCoefficients(dvec(3, true));
                } else {
                    si.op = "DataArray.expansionOrigin";
                    if (t.chance(25)) a.expansionOrigin(nix::none); else a.expansionOrigin(static_cast<double>(t.range(-3, 3)));
                }
                break;
            }
            case 5: {
                // dimensions
                switch (t.pick({3, 3, 3, 2, 1, 1})) {
                case 0: {
                    std::vector<std::string> l;
                    size_t n = t.below(4);
                    for (size_t i = 0; i < n; i++) l.push_back("l" + std::to_string(i));
                    si.op = "DataArray.appendSetDimension";
                    a.appendSetDimension(l);
                    break;
                }
                case 1: {
                    double iv = 0.1 * (1 + t.below(20));
                    std::string u = t.flip() ? "ms" : "";
                    if (prof != Profile::Valid && t.chance(25)) {
                        if (t.flip()) { iv = t.flip() ? 0.0 : -1.0; si.bad = "non_positive_interval"; }
                        else { u = badUnit(); si.bad = "non_si_unit"; }
                    }
                    si.op = "DataArray.appendSampledDimension";
                    a.appendSampledDimension(iv, t.flip() ? "time" : "", u, t.flip() ? -0.5 : 0.0);
                    break;
                }
                case 2: {
                    std::vector<double> tk = dvec(5, true);
                    std::sort(tk.begin(), tk.end());
                    std::string u = t.flip() ? "s" : "";
                    if (prof != Profile::Valid && t.chance(25)) {
                        if (t.flip() && tk.size() >= 2 && tk.front() != tk.back()) { std::reverse(tk.begin(), tk.end()); si.bad = "unsorted_ticks"; }
                        else { u = badUnit(); si.bad = "non_si_unit"; }
                    }
                    si.op = "DataArray.appendRangeDimension";
                    a.appendRangeDimension(tk, t.flip() ? "x" : "", u);
                    break;
                }
                case 3: {
                    nix::DataFrame df = frm(b);
                    if (prof != Profile::Valid && t.chance(30)) {
                        switch (t.below(3)) {
                        case 0: { nix::DataFrame o = frm(blkOther(b)); if (o) { df = o; si.bad = "target_in_other_block"; } break; }
                        case 1: df = other.getBlock("ob").getDataFrame("of"); si.bad = "target_in_other_file"; break;
                        default: if (!deadFrames.empty()) { df = deadFrames[0]; si.bad = "target_deleted"; } break;
                        }
                    }
                    si.op = "DataArray.appendDataFrameDimension";
                    si.is_link = true;
                    if (!df) { if (si.bad.empty()) si.bad = "target_uninitialized"; }
                    if (t.flip()) a.appendDataFrameDimension(df); else a.appendDataFrameDimension(df, 0u);
                    break;
                }
                case 4: si.op = "DataArray.appendAliasRangeDimension"; a.appendAliasRangeDimension(); break;
                default: si.op = "DataArray.deleteDimensions"; si.is_delete = true; si.returned_true = a.deleteDimensions(); break;
                }
                break;
            }
            case 6: {
                // modify an existing dimension
                size_t n = a.dimensionCount();
                if (!n) { si.op = "noop"; si.mutator = false; break; }
                nix::Dimension d = a.getDimension(1 + t.below(static_cast<uint32_t>(n)));
                if (!d) { si.op = "noop"; si.mutator = false; break; }
                switch (d.dimensionType()) {
                case nix::DimensionType::Sample: {
                    nix::SampledDimension sd = d.asSampledDimension();
                    switch (t.below(4)) {
                    case 0: { double iv = 0.5 * (1 + t.below(8)); if (prof != Profile::Valid && t.chance(30)) { iv = -iv; si.bad = "non_positive_interval"; }
                              si.op = "SampledDimension.samplingInterval"; sd.samplingInterval(iv); break; }
                    case 1: si.op = "SampledDimension.offset"; sd.offset(static_cast<double>(t.range(-4, 4)) * 0.5); break;
                    case 2: { std::string u = "ms"; if (prof != Profile::Valid && t.chance(40)) { u = badUnit(); si.bad = "non_si_unit"; } si.op = "SampledDimension.unit"; sd.unit(u); break; }
                    default: si.op = "SampledDimension.label"; sd.label("lbl" + std::to_string(t.below(3))); break;
                    }
                    break;
                }
                case nix::DimensionType::Range: {
                    nix::RangeDimension rd = d.asRangeDimension();
                    if (rd.alias()) { si.op = "RangeDimension(alias).label"; rd.label("al" + std::to_string(t.below(3))); break; }
                    switch (t.below(3)) {
                    case 0: { std::vector<double> tk = dvec(5, true); std::sort(tk.begin(), tk.end());
                              if (prof != Profile::Valid && t.chance(35) && tk.size() >= 2 && tk.front() != tk.back()) { std::reverse(tk.begin(), tk.end()); si.bad = "unsorted_ticks"; }
                              si.op = "RangeDimension.ticks"; rd.ticks(tk); break; }
                    case 1: { std::string u = "s"; if (prof != Profile::Valid && t.chance(40)) { u = badUnit(); si.bad = "non_si_unit"; } si.op = "RangeDimension.unit"; rd.unit(u); break; }
                    default: si.op = "RangeDimension.label"; rd.label("rl" + std::to_string(t.below(3))); break;
                    }
                    break;
                }
                case nix::DimensionType::Set: {
                    nix::SetDimension sd = d.asSetDimension();
                    std::vector<std::string> l;
                    size_t k = t.below(4);
                    for (size_t i = 0; i < k; i++) l.push_back("m" + std::to_string(i));
                    si.op = "SetDimension.labels";
                    sd.labels(l);
                    break;
                }
                default: si.op = "noop"; si.mutator = false; break;
                }
                break;
            }
            case 7: sourceOps(a, b, si, "DataArray"); break;
            case 8: metaOps(a, si, "DataArray"); break;
            default: namedOps(a, si, "DataArray"); break;
            }
            break;
        }
        case 4: { // ---- tag ---------------------------------------------------------------------
            nix::Tag tg = tag(b);
            if (!tg) { si.op = "noop"; si.mutator = false; break; }
            if (t.chance(25)) {
                if (t.flip()) { si.op = "Tag.position"; tg.position(dvec(3, true)); }
                else if (t.chance(70)) {
                    std::vector<double> e = dvec(3, true);
                    si.op = "Tag.extent";
                    tg.extent(e);
                } else { si.op = "Tag.extent(none)"; tg.extent(boost::none); }
            } else tagOps(tg, b, si, "Tag");
            break;
        }
        case 5: { // ---- multi tag -----------------------------------------------------------------
            nix::MultiTag mt = mtag(b);
            if (!mt) { si.op = "noop"; si.mutator = false; break; }
            if (t.chance(30)) {
                nix::DataArray a = arrArg(b, si.bad);
                si.is_link = true;
                switch (t.below(3)) {
                case 0:
                    si.op = "MultiTag.positions";
                    if (!a && si.bad.empty()) si.bad = "target_uninitialized";
                    if (t.flip() || !a) mt.positions(a); else mt.positions(a.id());
                    break;
                case 1:
                    si.op = "MultiTag.extents";
                    if (!a && si.bad.empty()) si.bad = "target_uninitialized";
                    // (an extents array whose shape differs from the positions is refused by the library: class shape_mismatch)
                    if (t.flip() || !a) mt.extents(a); else mt.extents(a.id());
                    break;
                default: si.op = "MultiTag.extents(none)"; si.bad.clear(); si.is_link = false; si.is_unlink = true; mt.extents(boost::none); break;
                }
            } else tagOps(mt, b, si, "MultiTag");
            break;
        }
        case 6: { // ---- group -----------------------------------------------------------------------
            nix::Group g = grp(b);
            if (!g) { si.op = "noop"; si.mutator = false; break; }
            switch (t.pick({4, 2, 2, 2, 3, 2, 2, 2})) {
            case 0: {
                nix::DataArray a = arrArg(b, si.bad);
                si.is_link = true;
                si.op = "Group.addDataArray";
                if (!a && si.bad.empty()) si.bad = "target_uninitialized";
                if (t.flip() || !a) g.addDataArray(a); else g.addDataArray(t.flip() ? a.id() : a.name());
                break;
            }
            case 1: {
                nix::Tag x = tag(b);
                if (prof != Profile::Valid && t.chance(30)) {
                    if (t.flip()) { x = other.getBlock("ob").getTag("ot"); si.bad = "target_in_other_file"; }
                    else if (!deadTags.empty()) { x = deadTags[0]; si.bad = "target_deleted"; }
                }
                si.is_link = true;
                si.op = "Group.addTag";
                if (!x && si.bad.empty()) si.bad = "target_uninitialized";
                if (t.flip() || !x) g.addTag(x); else g.addTag(x.id());
                break;
            }
            case 2: {
                nix::MultiTag x = mtag(b);
                if (prof != Profile::Valid && t.chance(30)) { x = other.getBlock("ob").getMultiTag("om"); si.bad = "target_in_other_file"; }
                si.is_link = true;
                si.op = "Group.addMultiTag";
                if (!x && si.bad.empty()) si.bad = "target_uninitialized";
                if (t.flip() || !x) g.addMultiTag(x); else g.addMultiTag(x.id());
                break;
            }
            case 3: {
                nix::DataFrame x = frm(b);
                if (prof != Profile::Valid && t.chance(30)) { x = other.getBlock("ob").getDataFrame("of"); si.bad = "target_in_other_file"; }
                si.is_link = true;
                si.op = "Group.addDataFrame";
                if (!x && si.bad.empty()) si.bad = "target_uninitialized";
                if (t.flip() || !x) g.addDataFrame(x); else g.addDataFrame(x.id());
                break;
            }
            case 4: {
                si.is_unlink = true;
                switch (t.below(4)) {
                case 0: { size_t n = g.dataArrayCount(); si.op = "Group.removeDataArray";
                          if (n) { nix::DataArray x = g.getDataArray(t.below(static_cast<uint32_t>(n))); si.returned_true = t.flip() ? g.removeDataArray(x) : g.removeDataArray(x.id()); }
                          else si.returned_true = g.removeDataArray(std::string("nothing")); break; }
                case 1: { size_t n = g.tagCount(); si.op = "Group.removeTag";
                          if (n) { nix::Tag x = g.getTag(t.below(static_cast<uint32_t>(n))); si.returned_true = t.flip() ? g.removeTag(x) : g.removeTag(x.id()); }
                          else si.returned_true = g.removeTag(std::string("nothing")); break; }
                case 2: { size_t n = g.multiTagCount(); si.op = "Group.removeMultiTag";
                          if (n) { nix::MultiTag x = g.getMultiTag(t.below(static_cast<uint32_t>(n))); si.returned_true = t.flip() ? g.removeMultiTag(x) : g.removeMultiTag(x.id()); }
                          else si.returned_true = g.removeMultiTag(std::string("nothing")); break; }
                default: { size_t n = g.dataFrameCount(); si.op = "Group.removeDataFrame";
                          if (n) { nix::DataFrame x = g.getDataFrame(t.below(static_cast<uint32_t>(n))); si.returned_true = t.flip() ? g.removeDataFrame(x) : g.removeDataFrame(x.id()); }
                          else si.returned_true = g.removeDataFrame(std::string("nothing")); break; }
                }
                break;
            }
            case 5: {
                std::vector<nix::DataArray> v;
                size_t n = t.below(4);
                for (size_t i = 0; i < n; i++) { nix::DataArray a = arrArg(b, si.bad); if (a) v.push_back(a); }
                si.op = "Group.dataArrays(vector)";
                si.order_reset = true;
                si.is_link = true;
                g.dataArrays(v);
                break;
            }
            case 6: sourceOps(g, b, si, "Group"); break;
            default: if (t.flip()) metaOps(g, si, "Group"); else namedOps(g, si, "Group"); break;
            }
            break;
        }
        case 7: { // ---- source ----------------------------------------------------------------------
            size_t d = 0;
            nix::Source s = src(b, &d);
            if (!s) {
                if (!b) { si.op = "noop"; si.mutator = false; break; }
                std::string n = name(si.bad), ty = type(si.bad);
                si.op = "Block.createSource"; si.is_create = true; b.createSource(n, ty); break;
            }
            switch (t.pick({5, 2, 2})) {
            case 0: {
                if (d >= 4) { si.op = "noop"; si.mutator = false; break; }
                std::string n = name(si.bad), ty = type(si.bad);
                n = maybeDuplicate(n, si.bad, [&] { return s.sourceCount(); }, [&](size_t i) { return s.getSource(i); });
                si.op = "Source.createSource";
                si.is_create = true;
                s.createSource(n, ty);
                break;
            }
            case 1: metaOps(s, si, "Source"); break;
            default: namedOps(s, si, "Source"); break;
            }
            break;
        }
        case 8: { // ---- section / property ------------------------------------------------------------
            size_t d = 0;
            nix::Section s = sec(&d);
            if (!s) { std::string n = name(si.bad), ty = type(si.bad); si.op = "File.createSection"; si.is_create = true; f.createSection(n, ty); break; }
            switch (t.pick({5, 5, 3, 2, 2, 4})) {
            case 0: {
                if (d >= 4) { si.op = "noop"; si.mutator = false; break; }
                std::string n = name(si.bad), ty = type(si.bad);
                n = maybeDuplicate(n, si.bad, [&] { return s.sectionCount(); }, [&](size_t i) { return s.getSection(i); });
                si.op = "Section.createSection";
                si.is_create = true;
                s.createSection(n, ty);
                break;
            }
            case 1: {
                std::string n = name(si.bad);
                n = maybeDuplicate(n, si.bad, [&] { return s.propertyCount(); }, [&](size_t i) { return s.getProperty(i); });
                si.is_create = true;
                switch (t.below(3)) {
                case 0: {
                    nix::DataType dt = c14types()[t.below(7)];
                    if (prof != Profile::Valid && t.chance(15)) { dt = nix::DataType::Nothing; si.bad = "unsupported_dtype"; }
                    si.op = "Section.createProperty(dtype)";
                    s.createProperty(n, dt);
                    break;
                }
                case 1: si.op = "Section.createProperty(value)"; s.createProperty(n, someValue()); break;
                default: {
                    std::vector<nix::Variant> v;
                    size_t k = 1 + t.below(3);
                    nix::Variant first = someValue();
                    for (size_t i = 0; i < k; i++) v.push_back(i == 0 ? first : sameTypeValue(first.type()));
                    if (prof != Profile::Valid && t.chance(20) && k >= 2) { v.back() = first.type() == nix::DataType::String ? nix::Variant(1.5) : nix::Variant(std::string("x")); si.bad = "mixed_value_types"; }
                    if (prof != Profile::Valid && t.chance(8)) { v.clear(); si.bad = "no_values"; }
                    si.op = "Section.createProperty(values)";
                    s.createProperty(n, v);
                    break;
                }
                }
                break;
            }
            case 2: {
                if (t.chance(70)) {
                    nix::Section l = secArg(si.bad);
                    si.is_link = true;
                    if (t.flip() || !l) {
                        si.op = "Section.link(section)";
                        if (!l && si.bad.empty()) si.bad = "target_uninitialized";
                        s.link(l);
                    } else {
                        std::string id = l.id();
                        if (prof != Profile::Valid && t.chance(15)) { id = "no-such-id"; si.bad = "target_unknown_id"; }
                        si.op = "Section.link(id)";
                        s.link(id);
                    }
                } else { si.op = "Section.link(none)"; si.is_unlink = true; s.link(nix::none); }
                break;
            }
            case 3: {
                if (t.chance(70)) { si.op = "Section.repository"; s.repository("http://repo/" + std::to_string(t.below(3))); }
                else { si.op = "Section.repository(none)"; s.repository(boost::none); }
                break;
            }
            case 4: namedOps(s, si, "Section"); break;
            default: {
                nix::Property p = prop(s);
                if (!p) { si.op = "noop"; si.mutator = false; break; }
                switch (t.pick({5, 2, 2, 2, 2})) {
                case 0: {
                    std::vector<nix::Variant> v;
                    size_t k = t.below(4);
                    nix::DataType dt = p.dataType();
                    for (size_t i = 0; i < k; i++) v.push_back(sameTypeValue(dt));
                    if (prof != Profile::Valid && t.chance(30) && k >= 1) {
                        nix::Variant wrong = dt == nix::DataType::String ? nix::Variant(2.5) : nix::Variant(std::string("w"));
                        if (t.flip()) { v[k - 1] = wrong; si.bad = k == 1 ? "wrong_value_type" : "mixed_value_types"; }
                        else { for (auto &x : v) x = wrong; si.bad = "wrong_value_type"; }
                    }
                    si.op = "Property.values";
                    p.values(v);
                    break;
                }
                case 1: si.op = "Property.deleteValues"; p.deleteValues(); break;
                case 2: si.op = "Property.unit"; if (t.chance(30)) p.unit(boost::none); else p.unit(t.flip() ? "mV" : "s"); break;
                case 3: si.op = "Property.uncertainty"; if (t.chance(30)) p.uncertainty(boost::none); else p.uncertainty(0.25 * t.below(8)); break;
                default: {
                    std::string dd = t.chance(80) ? "pdef" : "";
                    if (dd.empty()) { if (prof == Profile::Valid) dd = "pd"; else si.bad = "empty_definition"; }
                    si.op = "Property.definition";
                    if (t.chance(20)) { si.bad.clear(); p.definition(nix::none); } else p.definition(dd);
                    break;
                }
                }
                break;
            }
            }
            break;
        }
        case 9: { // ---- data frame -------------------------------------------------------------------
            nix::DataFrame df = frm(b);
            if (!df) { si.op = "noop"; si.mutator = false; break; }
            switch (t.pick({3, 3, 2, 2, 2})) {
            case 0: si.op = "DataFrame.rows"; df.rows(t.below(6)); break;
            case 1: {
                nix::ndsize_t n = df.rows();
                std::vector<nix::Column> cols = df.columns();
                std::vector<nix::Variant> v;
                for (auto &c : cols) v.push_back(sameTypeValue(c.dtype));
                nix::ndsize_t r = n ? t.below(static_cast<uint32_t>(n)) : 0;
                if (n == 0 || (prof != Profile::Valid && t.chance(20))) { r = n + t.below(3); si.bad = "row_out_of_range"; }
                if (prof == Profile::Valid && n == 0) { si.op = "noop"; si.mutator = false; si.bad.clear(); break; }
                si.op = "DataFrame.writeRow";
                df.writeRow(r, v);
                break;
            }
            case 2: sourceOps(df, b, si, "DataFrame"); break;
            case 3: metaOps(df, si, "DataFrame"); break;
            default: namedOps(df, si, "DataFrame"); break;
            }
            break;
        }
        case 10: reopen(si); break;
        case 11: si.op = "File.flush"; si.is_flush = true; si.mutator = false; si.returned_true = f.flush(); break;
        default: { // ---- block attributes -----------------------------------------------------------------
            if (!b) { si.op = "noop"; si.mutator = false; break; }
            if (t.flip()) metaOps(b, si, "Block"); else namedOps(b, si, "Block");
            break;
        }
        }
    }

    static const nix::DataType *c14types() {
        static const nix::DataType VT[7] = {nix::DataType::Bool, nix::DataType::Int32, nix::DataType::UInt32, nix::DataType::Int64,
                                            nix::DataType::UInt64, nix::DataType::Double, nix::DataType::String};
        return VT;
    }
    nix::Variant sameTypeValue(nix::DataType dt) {
        switch (dt) {
        case nix::DataType::Bool: return nix::Variant(t.flip());
        case nix::DataType::Int32: return nix::Variant(static_cast<int32_t>(t.range(-5, 5)));
        case nix::DataType::UInt32: return nix::Variant(static_cast<uint32_t>(t.below(10)));
        case nix::DataType::Int64: return nix::Variant(static_cast<int64_t>(t.range(-5, 5) * 1000000007ll));
        case nix::DataType::UInt64: return nix::Variant(static_cast<uint64_t>(t.below(10) * 1000000007ull));
        case nix::DataType::Double: return nix::Variant(0.5 * t.below(10));
        default: return nix::Variant(std::string("v") + std::to_string(t.below(10)));
        }
    }
    nix::Variant someValue() { return sameTypeValue(c14types()[t.below(7)]); }
};

} // namespace vf
