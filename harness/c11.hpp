// c11.hpp - C11: after close() / a successful flush() the file on disk is complete and released.
//
//  crash   : the case forks; the CHILD runs a generated program of 1-4 segments, each ended by flush() or
//            close(); at the generated crash point (right after such a sync, nothing modified since) it
//            writes the snapshot it sees to a side file and kills itself with SIGKILL - no destructor, no
//            exit handler, no H5close. The PARENT then opens the file ReadOnly, ReadWrite (copy), Overwrite
//            (copy) and through another process; the first two must show exactly the child's snapshot.
//  handles : in-process; 0-12 handles of every kind are kept alive across close(). Afterwards no HDF5 object
//            may be open, every file-touching call on a stale handle must throw, the bytes stay as they are,
//            and File::open(path, Overwrite) must succeed (HDF5 refuses to truncate a file that is open).
#pragma once
#include "prog.hpp"
#include <sys/wait.h>

namespace c11 {

using namespace vf;

static std::string g_self;

static std::string dumpOther(const std::string &path) {
    std::string cmd = "ASAN_OPTIONS=detect_leaks=0 '" + g_self + "' dump '" + path + "' 2>/dev/null";
    FILE *pp = popen(cmd.c_str(), "r");
    if (!pp) return "<popen failed>";
    std::string out;
    char buf[65536];
    size_t n;
    while ((n = fread(buf, 1, sizeof buf, pp)) > 0) out.append(buf, n);
    int rc = pclose(pp);
    if (rc != 0) out += "<exit " + std::to_string(rc) + ">";
    return out;
}

static std::string firstDiffLine(const std::string &a, const std::string &b) {
    size_t i = 0;
    while (i < a.size() && i < b.size() && a[i] == b[i]) i++;
    if (i == a.size() && i == b.size()) return "";
    size_t ls = a.rfind('\n', i ? i - 1 : 0);
    ls = ls == std::string::npos ? 0 : ls + 1;
    return "expected: " + a.substr(ls, 220) + "   VERSUS   found: " + b.substr(std::min(ls, b.size()), 220);
}

[[noreturn]] static void childMain(Tape t, const std::string &path, const std::string &side) {
    // everything the parent needs is written to `side` (one file, written atomically before the kill)
    std::ostringstream tr;
    std::string report;
    try {
        Prog p(t, tr, Profile::Valid);
        p.allow_reopen = true;
        p.start(path, path + ".unused");
        size_t nseg = 1 + t.below(4);
        size_t crashAt = t.below(static_cast<uint32_t>(nseg));
        size_t creates = 0, deletes = 0;
        for (size_t seg = 0; seg < nseg; seg++) {
            size_t nops = 1 + t.below(25);
            for (size_t i = 0; i < nops; i++) {
                StepInfo si = p.step();
                if (si.is_create && !si.threw) creates++;
                if ((si.is_delete || si.is_unlink) && !si.threw && si.returned_true) deletes++;
            }
            bool viaFlush = t.pick({3, 2}) == 0;
            std::string S;
            bool flushOk = true;
            if (viaFlush) {
                tr << "FLUSH ";
                flushOk = p.f.flush();
                S = flatStr(snapshot(p.f));
            } else {
                tr << "CLOSE ";
                S = flatStr(snapshot(p.f));
                p.f.close();
            }
            if (seg == crashAt) {
                if (viaFlush && t.flip()) {
                    // reading after the flush modifies nothing
                    std::string again = flatStr(snapshot(p.f));
                    (void)again;
                    tr << "(reads after flush) ";
                }
                tr << "SIGKILL";
                std::ofstream o(side + ".tmp", std::ios::binary);
                o << (viaFlush ? "flush" : "close") << " " << (flushOk ? 1 : 0) << " " << creates << " " << deletes << "\n" << tr.str() << "\n" << S;
                o.close();
                rename((side + ".tmp").c_str(), side.c_str());
                raise(SIGKILL);
                _exit(98);
            }
            if (!viaFlush) p.f = nix::File::open(path, nix::FileMode::ReadWrite);
        }
        report = "child reached the end of its program without a crash point";
    } catch (const std::exception &e) {
        report = std::string("exception in the writing process: ") + typeid(e).name() + ": " + e.what() + " | " + tr.str();
    }
    std::ofstream o(side + ".err", std::ios::binary);
    o << report;
    o.close();
    _exit(97);
}

static void crash(Tape &t, Ctx &ctx) {
    std::string path = ctx.path("c11.nix"), side = ctx.path("c11.side");
    unlink(path.c_str());
    unlink(side.c_str());
    unlink((side + ".err").c_str());
    bool otherProc = t.chance(30);
    fflush(nullptr);
    pid_t pid = fork();
    VCHECK(pid >= 0, "harness: fork failed");
    if (pid == 0) childMain(t, path, side);
    int st = 0;
    waitpid(pid, &st, 0);
    if (!(WIFSIGNALED(st) && WTERMSIG(st) == SIGKILL)) {
        std::string err = slurp(side + ".err");
        VCHECK(false, "the writing process did not reach its crash point (status " << st << "): " << err);
    }
    std::string sd = slurp(side);
    size_t l1 = sd.find('\n'), l2 = sd.find('\n', l1 + 1);
    VCHECK(l1 != std::string::npos && l2 != std::string::npos, "harness: malformed side file");
    std::istringstream hd(sd.substr(0, l1));
    std::string how;
    int flushOk = 1;
    size_t creates = 0, deletes = 0;
    hd >> how >> flushOk >> creates >> deletes;
    ctx.trace << "C11 crash: " << sd.substr(l1 + 1, l2 - l1 - 1);
    const std::string expect = sd.substr(l2 + 1);
    if (how == "flush" && !flushOk) {
        // flush() returned false: the statement makes no promise
        ctx.count("excluded:flush_returned_false");
        return;
    }
    const std::string bytes = slurp(path);
    // 1. ReadOnly
    {
        std::string got;
        try {
            nix::File f = nix::File::open(path, nix::FileMode::ReadOnly);
            got = flatStr(snapshot(f));
            f.close();
        } catch (const std::exception &e) {
            VCHECK(false, "after " << how << " + SIGKILL the file cannot be opened ReadOnly: " << e.what());
        }
        std::string d = firstDiffLine(expect, got);
        VCHECK(d.empty(), "after " << how << " + SIGKILL the file (ReadOnly) does not contain what was written before: " << d);
    }
    // 2. ReadWrite on a copy
    {
        std::string c2 = ctx.path("c11_rw.nix");
        spit(c2, bytes);
        std::string got;
        try {
            nix::File f = nix::File::open(c2, nix::FileMode::ReadWrite);
            got = flatStr(snapshot(f));
            f.createBlock("after-crash", "t");
            f.close();
        } catch (const std::exception &e) {
            VCHECK(false, "after " << how << " + SIGKILL the file cannot be opened ReadWrite: " << e.what());
        }
        std::string d = firstDiffLine(expect, got);
        VCHECK(d.empty(), "after " << how << " + SIGKILL the file (ReadWrite) does not contain what was written before: " << d);
    }
    // 3. Overwrite on a copy
    {
        std::string c3 = ctx.path("c11_ow.nix");
        spit(c3, bytes);
        try {
            nix::File f = nix::File::open(c3, nix::FileMode::Overwrite);
            VCHECK(f.blockCount() == 0 && f.sectionCount() == 0, "Overwrite after the crash does not give an empty file");
            f.close();
        } catch (const Violation &) { throw; } catch (const std::exception &e) {
            VCHECK(false, "after " << how << " + SIGKILL the file cannot be opened in Overwrite mode: " << e.what());
        }
    }
    // 4. another process
    if (otherProc) {
        std::string got = dumpOther(path);
        std::string d = firstDiffLine(expect, got);
        VCHECK(d.empty(), "after " << how << " + SIGKILL ANOTHER PROCESS does not see what was written before: " << d);
        ctx.count("crash_checked_by_other_process");
    }
    ctx.count(how == "flush" ? "crash_after_flush" : "crash_after_close");
    ctx.nontrivial = how == "flush" && deletes >= 1 && creates >= 3;
}

// ---------------------------------------------------------------------------------------------------
struct Stale {
    std::string kind;
    std::function<void()> read;   // a call that needs the file
    std::function<void()> write;  // a mutating call (may be empty)
};

// files, groups, datasets and attributes open anywhere in the process (transient datatypes that the
// library keeps as static objects are not bound to a file and are not counted)
static ssize_t openObjects() { return H5Fget_obj_count(static_cast<hid_t>(H5F_OBJ_ALL), H5F_OBJ_FILE | H5F_OBJ_GROUP | H5F_OBJ_DATASET | H5F_OBJ_ATTR); }

static void handles(Tape &t, Ctx &ctx) {
    std::string path = ctx.path("c11h.nix");
    ctx.trace << "C11 handles: build[ ";
    Prog p(t, ctx.trace, Profile::Valid);
    p.allow_reopen = true;
    p.start(path, path + ".unused");
    {
        // some furniture so that a handle of every kind can be taken
        nix::Block b = p.f.createBlock("zz_block", "t");
        nix::DataArray a = b.createDataArray("zz_array", "t", nix::DataType::Double, nix::NDSize({3, 2}));
        a.appendSampledDimension(0.5);
        a.appendSetDimension(std::vector<std::string>{"x", "y"});
        nix::DataArray r = b.createDataArray("zz_range", "t", nix::DataType::Double, nix::NDSize({3}));
        r.appendRangeDimension(std::vector<double>{1.0, 2.0, 3.0});
        std::vector<nix::Column> cols = {{"c", "", nix::DataType::Double}};
        nix::DataFrame df = b.createDataFrame("zz_frame", "t", cols);
        df.rows(3);
        nix::DataArray fa = b.createDataArray("zz_framed", "t", nix::DataType::Double, nix::NDSize({3}));
        fa.appendDataFrameDimension(df, 0u);
        nix::Tag tg = b.createTag("zz_tag", "t", {0.0});
        tg.addReference(a);
        tg.createFeature(r, nix::LinkType::Untagged);
        b.createMultiTag("zz_mtag", "t", r);
        b.createGroup("zz_group", "t").addDataArray(a);
        b.createSource("zz_source", "t").createSource("zz_child", "t");
        nix::Section s = p.f.createSection("zz_section", "t");
        s.createProperty("zz_prop", nix::Variant(1.5));
    }
    size_t nops = 4 + t.below(50);
    for (size_t i = 0; i < nops; i++) {
        if (i > 0 && t.exhausted()) break;
        p.step();
    }
    ctx.trace << "] keep[";
    std::vector<Stale> hs;
    size_t want = t.below(13);
    auto keep = [&](const std::string &k, std::function<void()> r, std::function<void()> w = nullptr) {
        hs.push_back({k, r, w});
        ctx.trace << " " << k;
    };
    nix::File &f = p.f;
    for (size_t tries = 0; tries < want * 3 && hs.size() < want; tries++) {
        nix::Block b = p.blk();
        switch (t.below(13)) {
        case 0: if (b) keep("block", [b] { b.name(); }, [b]() mutable { b.definition("d"); }); break;
        case 1: { nix::DataArray a = p.arr(b); if (a) keep("array", [a] { a.dataExtent(); }, [a]() mutable { a.label("l"); }); break; }
        case 2: {
            nix::DataArray a = p.arr(b);
            if (!a || a.dimensionCount() == 0) break;
            nix::Dimension d = a.getDimension(1 + t.below(static_cast<uint32_t>(a.dimensionCount())));
            if (!d) break;
            switch (d.dimensionType()) {
            case nix::DimensionType::Sample: { nix::SampledDimension s = d.asSampledDimension(); keep("sampled-dimension", [s] { s.samplingInterval(); }, [s]() mutable { s.label("l"); }); break; }
            case nix::DimensionType::Range: { nix::RangeDimension s = d.asRangeDimension(); keep("range-dimension", [s] { s.ticks(); }, [s]() mutable { s.label("l"); }); break; }
            case nix::DimensionType::Set: { nix::SetDimension s = d.asSetDimension(); keep("set-dimension", [s] { s.labels(); }, [s]() mutable { s.labels(std::vector<std::string>{"x"}); }); break; }
            default: { nix::DataFrameDimension s = d.asDataFrameDimension(); keep("frame-dimension", [s] { s.columnIndex(); }); break; }
            }
            break;
        }
        case 3: { nix::Tag x = p.tag(b); if (x) keep("tag", [x] { x.position(); }, [x]() mutable { x.position(std::vector<double>{1.0}); }); break; }
        case 4: {
            nix::Tag x = p.tag(b);
            if (x && x.featureCount()) { nix::Feature ft = x.getFeature(0); keep("feature", [ft] { ft.linkType(); }, [ft]() mutable { ft.linkType(nix::LinkType::Untagged); }); }
            break;
        }
        case 5: { nix::MultiTag x = p.mtag(b); if (x) keep("multi-tag", [x] { x.name(); }, [x]() mutable { x.definition("d"); }); break; }
        case 6: { nix::Group x = p.grp(b); if (x) keep("group", [x] { x.name(); }, [x]() mutable { x.definition("d"); }); break; }
        case 7: { nix::Source x = p.src(b); if (x) keep("source", [x] { x.name(); }, [x]() mutable { x.definition("d"); }); break; }
        case 8: { nix::Section x = p.sec(); if (x) keep("section", [x] { x.name(); }, [x]() mutable { x.repository("r"); }); break; }
        case 9: { nix::Section s = p.sec(); nix::Property x = p.prop(s); if (x) keep("property", [x] { x.values(); }, [x]() mutable { x.unit("mV"); }); break; }
        case 10: { nix::DataFrame x = p.frm(b); if (x) keep("data-frame", [x] { x.rows(); }, [x]() mutable { x.rows(3); }); break; }
        case 11: {
            nix::DataArray a = p.arr(b);
            if (!a || a.dataType() != nix::DataType::Double) break;
            nix::NDSize ext = a.dataExtent();
            bool empty = ext.size() == 0;
            for (size_t i = 0; i < ext.size(); i++) if (ext[i] == 0) empty = true;
            if (empty) break;
            nix::NDSize cnt(ext.size(), 1), off(ext.size(), 0);
            std::shared_ptr<nix::DataView> v = std::make_shared<nix::DataView>(a, cnt, off);
            keep("data-view", [v, cnt, off] { double x = 0; v->getData(nix::DataType::Double, &x, cnt, off); },
                 [v, cnt, off] { double x = 1; v->setData(nix::DataType::Double, &x, cnt, off); });
            break;
        }
        default: { nix::File f2 = f; keep("file-copy", [f2] { f2.blockCount(); }, [f2]() mutable { f2.createBlock("late", "t"); }); break; }
        }
    }
    // now and then a large number of handles (the library closes the objects that are still open one by one)
    if (t.chance(12)) {
        size_t bulk = 60 + t.below(120), taken = 0;
        for (size_t i = 0; i < bulk; i++) {
            nix::Block b = p.blk();
            if (i % 3 == 2) {
                nix::Section sc = p.sec();
                nix::Property x = p.prop(sc);
                if (x) { hs.push_back({"property", [x] { x.values(); }, nullptr}); taken++; }
                else if (sc) { hs.push_back({"section", [sc] { sc.name(); }, nullptr}); taken++; }
            } else {
                nix::DataArray a = b ? (b.dataArrayCount() ? b.getDataArray(t.below(static_cast<uint32_t>(b.dataArrayCount()))) : nix::DataArray()) : nix::DataArray();
                if (a) { hs.push_back({"array", [a] { a.dataExtent(); }, nullptr}); taken++; }
                else if (b) { hs.push_back({"block", [b] { b.name(); }, nullptr}); taken++; }
            }
        }
        ctx.trace << " +" << taken << " more handles";
        if (taken > 64) ctx.count("close_with_more_than_64_handles");
    }
    ctx.trace << " ] close";
    Ent before = snapshot(f);
    f.close();
    ssize_t open1 = openObjects();
    VCHECK(open1 == 0, "after close() " << open1 << " HDF5 objects of the process are still open (" << hs.size() << " entity handles were alive)");
    const std::string bytes = slurp(path);
    std::set<std::string> kinds;
    for (auto &h : hs) {
        bool threw = false;
        try { h.read(); } catch (const std::exception &) { threw = true; }
        VCHECK(threw, "after close() a file-reading call on a stale " << h.kind << " handle returned normally");
        if (h.write && t.flip()) {
            threw = false;
            try { h.write(); } catch (const std::exception &) { threw = true; }
            VCHECK(threw, "after close() a mutating call on a stale " << h.kind << " handle returned normally");
        }
        kinds.insert(h.kind);
        ctx.count("stale_handle:" + h.kind);
    }
    ssize_t open2 = openObjects();
    VCHECK(open2 == 0, "calls on stale handles after close() left " << open2 << " HDF5 objects open");
    VCHECK(slurp(path) == bytes, "calls on stale handles after close() changed the file");
    {
        nix::File ro = nix::File::open(path, nix::FileMode::ReadOnly);
        std::string d = diff(before, snapshot(ro));
        ro.close();
        VCHECK(d.empty(), "the closed file does not contain what was visible before close(): " << d);
    }
    try {
        nix::File ow = nix::File::open(path, nix::FileMode::Overwrite);
        VCHECK(ow.blockCount() == 0, "Overwrite after close() is not empty");
        ow.close();
    } catch (const Violation &) { throw; } catch (const std::exception &e) {
        VCHECK(false, "after close() with " << hs.size() << " live handles the file cannot be truncated (still held open?): " << e.what());
    }
    hs.clear();
    p.finish();
    ctx.nontrivial = kinds.size() >= 3;
    ctx.count("close_with_handles_cases");
}

static void body(Tape &t, Ctx &ctx) {
    if (t.pick({3, 2}) == 0) crash(t, ctx);
    else handles(t, ctx);
}

} // namespace c11
