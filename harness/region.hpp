// region.hpp - generated DataArrays with dimension descriptors, and the reference ("brute force") model
// of a tagged / sliced region, written from the statements of C05, C06, C17, C18:
//   per specified dimension d the index set {i : p <= x_i <= end} (inclusive) or {i : p <= x_i < end}
//   (exclusive) over the axis coordinates x_i; a zero / absent extent selects the single smallest i with
//   x_i >= p; unspecified dimensions select everything; an empty set or an index outside the stored data
//   is an error. Coordinates come from axis.hpp (the documented expressions), all comparisons are exact.
#pragma once
#include "axis.hpp"

namespace rg {

using namespace vf;

struct DimSpec {
    Axis axis;
    bool withLabels = false; // set dimension with as many labels as elements
    int col = -1;            // data-frame dimension: column index or -1
};

struct ArraySpec {
    std::vector<DimSpec> dims;
    std::vector<uint64_t> ext;
    size_t rank() const { return ext.size(); }
    uint64_t total() const {
        uint64_t n = 1;
        for (auto e : ext) n *= e;
        return n;
    }
    std::string describe() const {
        std::ostringstream os;
        os << "array{";
        for (size_t d = 0; d < ext.size(); d++) os << (d ? " x " : "") << ext[d] << ":" << dims[d].axis.describe();
        os << "}";
        return os.str();
    }
};

// unit = prefix + base; exponent of the prefix
struct PUnit {
    std::string prefix, base;
    int exp10;
    std::string str() const { return prefix + base; }
};
static const std::pair<const char *, int> PREFIXES[] = {{"", 0}, {"m", -3}, {"u", -6}, {"k", 3}, {"n", -9}, {"M", 6}, {"c", -2}, {"d", -1}};
static const char *const BASES[] = {"s", "V", "m", "Hz", "A", "g"};

inline PUnit genUnit(Tape &t) {
    PUnit u;
    auto &p = PREFIXES[t.below(6)];
    u.prefix = p.first;
    u.exp10 = p.second;
    u.base = BASES[t.below(6)];
    return u;
}

inline ArraySpec genArray(Tape &t, size_t minRank = 1, size_t maxRank = 3, uint64_t maxExt = 9, bool wantUnits = false) {
    ArraySpec s;
    size_t rank = minRank + t.below(static_cast<uint32_t>(maxRank - minRank + 1));
    for (size_t d = 0; d < rank; d++) {
        uint64_t n;
        switch (t.pick({1, 2, 6})) {
        case 0: n = 1; break;
        case 1: n = 2; break;
        default: n = 1 + t.below(static_cast<uint32_t>(maxExt)); break;
        }
        DimSpec ds;
        switch (t.pick({4, 3, 2, 2})) {
        case 0: {
            ds.axis.kind = AK::Sampled;
            ds.axis.interval = genInterval(t);
            ds.axis.offset = genOffset(t, ds.axis.interval, static_cast<double>(n + 6));
            if (wantUnits || t.flip()) ds.axis.unit = genUnit(t).str();
            break;
        }
        case 1: {
            ds.axis.kind = AK::Range;
            double x;
            switch (t.pick({2, 2, 2})) {
            case 0: x = 0.0; break;
            case 1: x = static_cast<double>(t.range(-20, 20)) * 0.1; break;
            default: x = (t.unit() - 0.5) * 100.0; break;
            }
            for (uint64_t i = 0; i < n; i++) {
                ds.axis.ticks.push_back(x);
                double inc;
                switch (t.pick({3, 2, 2, 3})) {
                case 0: inc = 0.1; break;
                case 1: inc = 1.0; break;
                case 2: inc = 0.25 * (1 + t.below(8)); break;
                default: inc = 1e-3 + t.unit() * 10.0; break;
                }
                double nx = x + inc;
                if (!(nx > x)) nx = next_up(x);
                x = nx;
            }
            if (wantUnits || t.flip()) ds.axis.unit = genUnit(t).str();
            break;
        }
        case 2:
            ds.axis.kind = AK::Set;
            ds.withLabels = t.flip();
            ds.axis.count = ds.withLabels ? n : 0;
            break;
        default:
            ds.axis.kind = AK::Frame;
            ds.axis.count = n;
            ds.col = t.flip() ? 0 : -1;
            break;
        }
        s.dims.push_back(ds);
        s.ext.push_back(n);
    }
    return s;
}

// element (i,j,k) stores its own row-major linear index
inline nix::DataArray buildArray(nix::Block &b, const std::string &name, const ArraySpec &s) {
    nix::NDSize ext(s.rank(), 0);
    for (size_t d = 0; d < s.rank(); d++) ext[d] = s.ext[d];
    nix::DataArray a = b.createDataArray(name, "t", nix::DataType::Double, ext);
    std::vector<double> v(s.total());
    for (size_t i = 0; i < v.size(); i++) v[i] = static_cast<double>(i);
    a.setData(nix::DataType::Double, v.data(), ext, nix::NDSize(s.rank(), 0));
    for (size_t d = 0; d < s.rank(); d++) {
        const DimSpec &ds = s.dims[d];
        switch (ds.axis.kind) {
        case AK::Sampled: a.appendSampledDimension(ds.axis.interval, "", ds.axis.unit, ds.axis.offset); break;
        case AK::Range: a.appendRangeDimension(ds.axis.ticks, "", ds.axis.unit); break;
        case AK::Set: {
            std::vector<std::string> l;
            if (ds.withLabels) for (uint64_t i = 0; i < s.ext[d]; i++) l.push_back("l" + std::to_string(i));
            a.appendSetDimension(l);
            break;
        }
        default: {
            std::vector<nix::Column> cols = {{"c0", "", nix::DataType::Double}, {"c1", "", nix::DataType::String}};
            nix::DataFrame df = b.createDataFrame(name + "_f" + std::to_string(d), "t", cols);
            df.rows(s.ext[d]);
            if (ds.col >= 0) a.appendDataFrameDimension(df, static_cast<unsigned>(ds.col));
            else a.appendDataFrameDimension(df);
            break;
        }
        }
    }
    return a;
}

// ---------------------------------------------------------------------------------------------------
struct DimReq {
    bool specified = false;
    double start = 0, end = 0;
    bool point = false;                                  // zero / absent extent: single first element at or after start
    nix::RangeMatch mode = nix::RangeMatch::Inclusive;
};

struct Expect {
    bool error = false;
    std::string why;
    std::vector<uint64_t> off, cnt;
    std::string str() const {
        if (error) return "error(" + why + ")";
        std::string s = "offset{";
        for (size_t i = 0; i < off.size(); i++) s += (i ? "," : "") + std::to_string(off[i]);
        s += "} count{";
        for (size_t i = 0; i < cnt.size(); i++) s += (i ? "," : "") + std::to_string(cnt[i]);
        return s + "}";
    }
};

// the statement, by enumeration of the axis
inline bool refDim(const Axis &a, uint64_t n, const DimReq &r, uint64_t &off, uint64_t &cnt, std::string &why) {
    if (!r.specified) {
        off = 0;
        cnt = n;
        return true;
    }
    uint64_t limit = a.bounded() ? a.n() : n + 2;
    if (r.point) {
        for (uint64_t i = 0; i < limit; i++) {
            if (a.coord(i) >= r.start) {
                if (i >= n) { why = "the element at or after the position lies outside the data"; return false; }
                off = i;
                cnt = 1;
                return true;
            }
        }
        why = "no coordinate at or after the position";
        return false;
    }
    bool any = false;
    uint64_t lo = 0, hi = 0;
    for (uint64_t i = 0; i < limit; i++) {
        double x = a.coord(i);
        bool in = x >= r.start && (r.mode == nix::RangeMatch::Inclusive ? x <= r.end : x < r.end);
        if (in) {
            if (!any) lo = i;
            hi = i;
            any = true;
        }
    }
    if (!any) { why = "no coordinate inside the region"; return false; }
    if (hi >= n) { why = "the region reaches outside the data"; return false; }
    off = lo;
    cnt = hi - lo + 1;
    return true;
}

inline Expect refRegion(const ArraySpec &s, const std::vector<DimReq> &req) {
    Expect e;
    for (size_t d = 0; d < s.rank(); d++) {
        uint64_t o = 0, c = 0;
        std::string why;
        DimReq r = d < req.size() ? req[d] : DimReq();
        if (!refDim(s.dims[d].axis, s.ext[d], r, o, c, why)) {
            e.error = true;
            e.why = "dimension " + std::to_string(d + 1) + ": " + why;
            e.off.clear();
            e.cnt.clear();
            return e;
        }
        e.off.push_back(o);
        e.cnt.push_back(c);
    }
    return e;
}

inline std::vector<double> expectData(const ArraySpec &s, const std::vector<uint64_t> &off, const std::vector<uint64_t> &cnt) {
    std::vector<double> out;
    size_t r = s.rank();
    std::vector<uint64_t> idx(r, 0);
    uint64_t total = 1;
    for (auto c : cnt) total *= c;
    for (uint64_t k = 0; k < total; k++) {
        uint64_t lin = 0;
        for (size_t d = 0; d < r; d++) lin = lin * s.ext[d] + (off[d] + idx[d]);
        out.push_back(static_cast<double>(lin));
        for (size_t d = r; d-- > 0;) {
            if (++idx[d] < cnt[d]) break;
            idx[d] = 0;
        }
    }
    return out;
}

inline std::string ndstr(const nix::NDSize &s) {
    std::string r = "{";
    for (size_t i = 0; i < s.size(); i++) r += (i ? "," : "") + std::to_string(s[i]);
    return r + "}";
}

inline std::vector<double> readView(const nix::DataView &v) {
    nix::NDSize e = v.dataExtent();
    uint64_t n = e.size() ? 1 : 0;
    for (size_t i = 0; i < e.size(); i++) n *= e[i];
    std::vector<double> buf(n, -1.0);
    if (n) v.getData(nix::DataType::Double, buf.data(), e, nix::NDSize(e.size(), 0));
    return buf;
}

// compare a returned view with the expectation; "" if it matches
inline std::string viewMismatch(const ArraySpec &s, const nix::DataView &v, const Expect &e) {
    nix::NDSize shape = v.dataExtent();
    if (shape.size() != e.cnt.size()) return "rank of the view is " + std::to_string(shape.size());
    for (size_t d = 0; d < shape.size(); d++)
        if (shape[d] != e.cnt[d]) return "shape of the view is " + ndstr(shape) + ", expected " + e.str();
    std::vector<double> got = readView(v), want = expectData(s, e.off, e.cnt);
    if (got != want) {
        std::ostringstream os;
        os << "the view has the right shape " << ndstr(shape) << " but wrong elements: first element is #" << (got.empty() ? -1.0 : got[0]) << ", expected #"
           << (want.empty() ? -1.0 : want[0]) << " (" << e.str() << ")";
        for (size_t i = 0; i < got.size(); i++)
            if (got[i] != want[i]) { os << "; element " << i << " is #" << got[i] << " expected #" << want[i]; break; }
        return os.str();
    }
    return "";
}

// ---------------------------------------------------------------------------------------------------
// positions relative to an axis: class names are part of the trace
struct Pos {
    double p = 0;
    uint64_t i = 0;      // the coordinate index the class refers to
    bool near = false;   // on or within one ulp of a coordinate
    std::string cls;
};

inline double stepAt(const Axis &a, uint64_t i, uint64_t n) {
    uint64_t lim = a.bounded() ? a.n() : n + 4;
    if (i + 1 < lim) return a.coord(i + 1) - a.coord(i);
    if (i >= 1 && i < lim + 1) return a.coord(i) - a.coord(i - 1);
    return 1.0;
}

inline Pos genPos(Tape &t, const Axis &a, uint64_t n, bool interiorOnly) {
    Pos q;
    uint64_t lim = a.bounded() ? std::min<uint64_t>(a.n(), n) : n;
    if (lim == 0) lim = 1;
    q.i = t.below(static_cast<uint32_t>(lim));
    if (a.bounded() && q.i >= a.n()) q.i = 0;
    double x = (a.bounded() && a.n() == 0) ? 0.0 : a.coord(q.i);
    double st = stepAt(a, q.i, n);
    if (interiorOnly) {
        q.p = x + st * (0.2 + 0.6 * t.unit());
        q.cls = "interior(" + std::to_string(q.i) + ")";
        return q;
    }
    switch (t.pick({6, 2, 2, 3, 2, 2, 1})) {
    case 0: q.p = x; q.near = true; q.cls = "on(" + std::to_string(q.i) + ")"; break;
    case 1: q.p = next_up(x); q.near = true; q.cls = "ulp_above(" + std::to_string(q.i) + ")"; break;
    case 2: q.p = next_down(x); q.near = true; q.cls = "ulp_below(" + std::to_string(q.i) + ")"; break;
    case 3: q.p = x + st * 0.5; q.cls = "mid(" + std::to_string(q.i) + ")"; break;
    case 4: q.p = a.coord(0) - std::fabs(st) * (0.25 + 2.0 * t.unit()); q.i = 0; q.cls = "below_first"; break;
    case 5: {
        // at / beyond the end of the data
        uint64_t k = n + t.below(2);
        if (a.bounded()) { q.p = a.coord(a.n() - 1) + std::fabs(st) * (0.5 + 2.0 * t.unit()); q.cls = "beyond_last_tick"; }
        else { q.p = a.coord(k); q.i = k; q.near = true; q.cls = "on_outside(" + std::to_string(k) + ")"; }
        break;
    }
    default: q.p = x + st * t.unit(); q.cls = "between(" + std::to_string(q.i) + ")"; break;
    }
    return q;
}

// an extent for a region starting at q; returns the extent and a class name
inline double genExtent(Tape &t, const Axis &a, uint64_t n, const Pos &q, bool interiorOnly, std::string &cls, bool &near) {
    uint64_t lim = a.bounded() ? std::min<uint64_t>(a.n(), n) : n;
    uint64_t i = std::min<uint64_t>(q.i, lim ? lim - 1 : 0);
    uint64_t j = i + (lim > i ? t.below(static_cast<uint32_t>(lim - i)) : 0);
    double xj = (a.bounded() && a.n() == 0) ? 0.0 : a.coord(j);
    double st = stepAt(a, j, n);
    near = false;
    if (interiorOnly) {
        cls = "ends_interior(" + std::to_string(j) + ")";
        double end = xj + st * (0.2 + 0.6 * t.unit());
        if (!(end > q.p)) end = q.p + st * 0.5;
        return end - q.p;
    }
    switch (t.pick({2, 5, 3, 2, 2, 1, 1})) {
    case 0: cls = "zero"; return 0.0;
    case 1: cls = "ends_on(" + std::to_string(j) + ")"; near = true; return xj - q.p;
    case 2: cls = "ends_mid(" + std::to_string(j) + ")"; return xj + st * 0.5 - q.p;
    case 3: {
        uint64_t k = n - 1 + 1 + t.below(3);
        cls = "ends_outside";
        if (a.bounded()) return a.coord(a.n() - 1) + std::fabs(st) * (1.0 + t.unit()) - q.p;
        return a.coord(k) - q.p;
    }
    case 4: cls = "negative"; return -std::fabs(st) * (0.5 + 1.5 * t.unit());
    case 5: cls = "tiny"; return std::fabs(st) * 1e-3;
    default: cls = "ends_ulp_below(" + std::to_string(j) + ")"; near = true; return next_down(xj) - q.p;
    }
}

inline double pow10i(int k) {
    double r = 1.0;
    for (int i = 0; i < (k < 0 ? -k : k); i++) r *= 10.0;
    return k < 0 ? 1.0 / r : r;
}

} // namespace rg
