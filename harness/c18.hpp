// c18.hpp - C18: unit scaling is exact (10^(power*(exp_a-exp_b))), reciprocal, composable, symmetric in
// scalability, rejects different base / power / non-SI; and is transparent to retrieval (metamorphic).
#pragma once
#include "c05.hpp"

namespace c18 {

using namespace vf;
using namespace rg;

static const std::pair<const char *, int> ALL_PREFIXES[] = {{"Y", 24}, {"Z", 21}, {"E", 18}, {"P", 15}, {"T", 12}, {"G", 9},  {"M", 6},   {"k", 3},   {"h", 2},   {"da", 1},
                                                            {"d", -1}, {"c", -2}, {"m", -3}, {"u", -6}, {"n", -9}, {"p", -12}, {"f", -15}, {"a", -18}, {"z", -21}, {"y", -24}};
static const char *const ALL_BASES[] = {"m",  "g",  "s",  "A",  "K",  "mol", "cd", "Hz", "N",   "Pa", "J", "W",  "C",   "V", "F",
                                        "S",  "Wb", "T",  "H",  "lm", "lx",  "Bq", "Gy", "Sv",  "kat", "l", "L",  "Ohm", "%", "dB", "rad"};
static const size_t NBASES = sizeof ALL_BASES / sizeof ALL_BASES[0];

struct U {
    std::string prefix, base;
    int exp10 = 0;
    int power = 1;      // 1 = no power suffix
    bool valid = true;  // an SI unit of the library's grammar
    std::string str() const { return prefix + base + (power == 1 ? std::string() : "^" + std::to_string(power)); }
};

// number of ways the string prefix+base can be read as [prefix]base
static int readings(const std::string &pb) {
    int n = 0;
    for (size_t b = 0; b < NBASES; b++) {
        std::string bs = ALL_BASES[b];
        if (pb == bs) n++;
        if (pb.size() > bs.size() && pb.compare(pb.size() - bs.size(), bs.size(), bs) == 0) {
            std::string pre = pb.substr(0, pb.size() - bs.size());
            for (auto &p : ALL_PREFIXES) if (pre == p.first) n++;
        }
    }
    return n;
}

static U genU(Tape &t, const char *base = nullptr, int power = 0) {
    U u;
    if (t.chance(80)) {
        auto &p = ALL_PREFIXES[t.below(20)];
        u.prefix = p.first;
        u.exp10 = p.second;
    }
    u.base = base ? base : ALL_BASES[t.below(static_cast<uint32_t>(NBASES))];
    static const int pw[] = {1, 2, 3, -1, -2, -3};
    u.power = power ? power : pw[t.pick({4, 2, 1, 2, 1, 1})];
    return u;
}

static bool relClose(double a, double b, double tol) { return std::fabs(a - b) <= tol * std::max(std::fabs(a), std::fabs(b)); }

static double expectFactor(const U &a, const U &b) { return std::pow(10.0, static_cast<double>(a.power * (a.exp10 - b.exp10))); }

static void algebra(Tape &t, Ctx &ctx) {
    // three units: mostly the same base and power, sometimes a different base, power, or a non-SI string
    U a = genU(t);
    U b = genU(t, a.base.c_str(), a.power), c = genU(t, a.base.c_str(), a.power);
    std::string variant = "same";
    switch (t.pick({10, 2, 2, 2})) {
    case 1: { b = genU(t, nullptr, a.power); variant = b.base == a.base ? "same" : "other_base"; break; }
    case 2: {
        // another power: a different magnitude, or the same magnitude with the opposite sign
        int p2 = t.flip() ? -a.power : (a.power == 2 ? 3 : (a.power == 1 ? 2 : 1));
        b = genU(t, a.base.c_str(), p2);
        variant = p2 == -a.power ? "opposite_power" : "other_power";
        break;
    }
    case 3: {
        static const char *junk[] = {"foo", "sec", "mVolt", "", "m/s/", "kk", "mm2", "^2", "m^0", "m^", "µV", "msec", "ks^x", "k", "da"};
        b.prefix = "";
        b.base = junk[t.below(15)];
        b.power = 1;
        b.valid = false;
        variant = "non_si";
        break;
    }
    default: break;
    }
    std::string sa = a.str(), sb = b.str(), sc = c.str();
    ctx.trace << "C18 units a=" << show(sa) << " b=" << show(sb) << " c=" << show(sc) << " (" << variant << ")";
    if (readings(a.prefix + a.base) != 1 || (b.valid && readings(b.prefix + b.base) != 1) || readings(c.prefix + c.base) != 1) {
        ctx.count("excluded:ambiguous_prefix_unit_spelling");
        return;
    }
    // splitUnit returns what was put together
    for (const U *u : {&a, &b, &c}) {
        if (!u->valid) continue;
        std::string pre, un, pw;
        nix::util::splitUnit(u->str(), pre, un, pw);
        int gotPower = pw.empty() ? 1 : atoi(pw.c_str());
        VCHECK(pre == u->prefix && un == u->base && gotPower == u->power, "splitUnit(" << show(u->str()) << ") = (" << show(pre) << ", " << show(un) << ", " << show(pw) << "), built from ("
                                                                                       << show(u->prefix) << ", " << show(u->base) << ", " << u->power << ")");
        VCHECK(nix::util::isSIUnit(u->str()) && nix::util::isAtomicSIUnit(u->str()), show(u->str()) << " is not recognised as an (atomic) SI unit");
    }
    bool expectAB = b.valid && a.base == b.base && a.power == b.power;
    bool sab = nix::util::isScalable(sa, sb), sba = nix::util::isScalable(sb, sa);
    VCHECK(sab == sba, "isScalable(" << show(sa) << ", " << show(sb) << ") = " << sab << " but the reverse is " << sba);
    VCHECK(sab == expectAB, "isScalable(" << show(sa) << ", " << show(sb) << ") = " << sab << ", expected " << expectAB << " (" << variant << ")");
    ctx.count("pair:" + variant);
    if (!expectAB) {
        for (int dir = 0; dir < 2; dir++) {
            bool threw = false;
            try { (void)(dir ? nix::util::getSIScaling(sb, sa) : nix::util::getSIScaling(sa, sb)); } catch (const std::exception &) { threw = true; }
            VCHECK(threw, "getSIScaling(" << show(dir ? sb : sa) << ", " << show(dir ? sa : sb) << ") did not reject units of different base / power / non-SI");
        }
        ctx.nontrivial = true;
        return;
    }
    const double TOL = 1e-12;
    double fab = nix::util::getSIScaling(sa, sb), fba = nix::util::getSIScaling(sb, sa);
    double fbc = nix::util::getSIScaling(sb, sc), fac = nix::util::getSIScaling(sa, sc);
    VCHECK(relClose(fab, expectFactor(a, b), TOL), "getSIScaling(" << show(sa) << ", " << show(sb) << ") = " << dstr(fab) << ", expected 10^(" << a.power << "*(" << a.exp10 << "-" << b.exp10
                                                                   << ")) = " << dstr(expectFactor(a, b)));
    VCHECK(relClose(fba, expectFactor(b, a), TOL), "getSIScaling(" << show(sb) << ", " << show(sa) << ") = " << dstr(fba) << ", expected " << dstr(expectFactor(b, a)));
    VCHECK(relClose(fab * fba, 1.0, TOL), "scaling " << show(sa) << "->" << show(sb) << " (" << dstr(fab) << ") and back (" << dstr(fba) << ") are not reciprocal");
    VCHECK(relClose(fab * fbc, fac, TOL), "scaling " << show(sa) << "->" << show(sb) << "->" << show(sc) << " = " << dstr(fab * fbc) << " does not compose to " << show(sa) << "->" << show(sc)
                                                     << " = " << dstr(fac));
    VCHECK(nix::util::isScalable(std::vector<std::string>{sa, sb}, std::vector<std::string>{sc, sa}), "vector isScalable rejects pairwise scalable units");
    ctx.nontrivial = a.base.size() >= 2 && !a.prefix.empty() && a.power != 1;
    if (ctx.nontrivial) ctx.count("multi_letter_base_with_prefix_and_power");
}

// ---------------------------------------------------------------------------------------------------
// metamorphic: the request in a scaled unit with rescaled values selects the same elements
static std::string describeView(const c05::Outcome &o, const nix::DataView *v) {
    if (!o.got) return "exception " + o.extype;
    std::string s = "shape " + ndstr(v->dataExtent()) + " elements";
    for (double x : readView(*v)) s += " #" + std::to_string(static_cast<long long>(x));
    return s;
}

static void retrieval(Tape &t, Ctx &ctx) {
    nix::File f = nix::File::open(ctx.path("c18.nix"), nix::FileMode::Overwrite);
    nix::Block b = f.createBlock("b", "t");
    // array whose sampled / range dimensions all carry a unit with a random prefix out of all 20
    ArraySpec s = genArray(t, 1, 3, 9, true);
    std::vector<U> dimU(s.rank());
    for (size_t d = 0; d < s.rank(); d++) {
        if (s.dims[d].axis.kind == AK::Sampled || s.dims[d].axis.kind == AK::Range) {
            static const char *bases[] = {"s", "V", "m", "Hz", "A", "mol", "Sv", "Wb", "Pa", "K"};
            dimU[d] = genU(t, bases[t.below(10)], 1);
            s.dims[d].axis.unit = dimU[d].str();
        } else {
            s.dims[d].axis.unit.clear();
            dimU[d].valid = false;
        }
    }
    nix::DataArray a = buildArray(b, "data", s);
    nix::RangeMatch mode = t.flip() ? nix::RangeMatch::Exclusive : nix::RangeMatch::Inclusive;
    bool hasExt = t.chance(75);
    size_t R = s.rank();
    // interior positions / ends in the dimension's own unit
    std::vector<double> p0(R), e0(R), p1(R), e1(R);
    std::vector<std::string> u0(R, "none"), u1(R, "none");
    std::vector<double> F(R, 1.0); // value_in_dimension_unit / value_in_tag_unit
    bool differentPrefix = false;
    std::ostringstream tr;
    for (size_t d = 0; d < R; d++) {
        const Axis &ax = s.dims[d].axis;
        Pos q = genPos(t, ax, s.ext[d], true);
        std::string ecls;
        bool enear;
        double e = hasExt ? genExtent(t, ax, s.ext[d], q, true, ecls, enear) : 0.0;
        if (!t.chance(15)) {
            // a request that selects the block [i..j]: start inside the interval before x_i, end inside the one after x_j
            uint64_t n = s.ext[d];
            uint64_t i = t.below(static_cast<uint32_t>(n)), j = i + t.below(static_cast<uint32_t>(n - i));
            // the interval BEFORE x_i (ticks need not be evenly spaced)
            double st = i > 0 ? ax.coord(i) - ax.coord(i - 1) : stepAt(ax, i, n);
            q.i = i;
            q.p = ax.coord(i) - std::fabs(st) * (0.2 + 0.6 * t.unit());
            q.cls = "before(" + std::to_string(i) + ")";
            e = hasExt ? ax.coord(j) + std::fabs(stepAt(ax, j, n)) * (0.2 + 0.6 * t.unit()) - q.p : 0.0;
        }
        // "values chosen so that rescaling is exact": start and end must keep a clear distance from every
        // coordinate, so that the rounding of value / factor * factor cannot move them across one
        {
            uint64_t lim = ax.bounded() ? ax.n() : s.ext[d] + 3;
            bool clear = true;
            double vals[2] = {q.p, q.p + e};
            for (int w = 0; w < (hasExt ? 2 : 1) && clear; w++)
                for (uint64_t k = 0; k < lim; k++) {
                    double x = ax.coord(k), v = vals[w];
                    if (std::fabs(v - x) <= 1e-9 * std::max(std::max(std::fabs(v), std::fabs(x)), 1e-300)) { clear = false; break; }
                }
            if (!clear) {
                ctx.count("excluded:bound_too_close_to_a_coordinate");
                f.close();
                return;
            }
        }
        p0[d] = q.p;
        e0[d] = e;
        p1[d] = q.p;
        e1[d] = e;
        if (dimU[d].valid) {
            u0[d] = t.flip() ? dimU[d].str() : std::string("none");
            U tu = genU(t, dimU[d].base.c_str(), 1);
            u1[d] = tu.str();
            // value in the tag's unit: v_tag = v_dim / 10^(exp_tag - exp_dim)
            double fct = std::pow(10.0, static_cast<double>(tu.exp10 - dimU[d].exp10));
            F[d] = fct;
            p1[d] = q.p / fct;
            e1[d] = e / fct;
            if (tu.exp10 != dimU[d].exp10) differentPrefix = true;
            // the rescaled values must map back into the same sample interval (interior positions)
            double back = p1[d] * fct, backEnd = (p1[d] + e1[d]) * fct;
            double st = stepAt(ax, q.i, s.ext[d]);
            if (!(std::fabs(back - q.p) < std::fabs(st) * 1e-6) || !(std::fabs(backEnd - (q.p + e)) < std::fabs(st) * 1e-6)) {
                ctx.count("excluded:rescaling_not_exact_enough");
                f.close();
                return;
            }
        }
        tr << " [" << q.cls << " " << dstr(p0[d]) << (hasExt ? "+" + dstr(e0[d]) : std::string()) << " " << u0[d] << " | " << dstr(p1[d]) << " " << u1[d] << "]";
    }
    ctx.trace << "C18 retrieval " << s.describe() << tr.str() << " mode=" << c05::modeName(mode);
    int kind = static_cast<int>(t.pick({3, 2, 2}));
    nix::DataView *v0 = nullptr, *v1 = nullptr;
    std::unique_ptr<nix::DataView> h0, h1;
    c05::Outcome o0, o1;
    if (kind == 0) {
        nix::Tag t0 = b.createTag("t0", "t", p0), t1 = b.createTag("t1", "t", p1);
        if (hasExt) { t0.extent(e0); t1.extent(e1); }
        t0.units(u0);
        t1.units(u1);
        t0.addReference(a);
        t1.addReference(a);
        o0 = c05::callView([&] { return nix::util::taggedData(t0, a, mode); }, v0, h0);
        o1 = c05::callView([&] { return nix::util::taggedData(t1, a, mode); }, v1, h1);
        ctx.trace << " Tag";
    } else if (kind == 1) {
        std::vector<double> s0 = p0, s1 = p1, en0(R), en1(R);
        for (size_t d = 0; d < R; d++) {
            en0[d] = p0[d] + (hasExt ? e0[d] : stepAt(s.dims[d].axis, 0, s.ext[d]) * 0.5);
            en1[d] = en0[d] / F[d];
        }
        o0 = c05::callView([&] { return nix::util::dataSlice(a, s0, en0, u0, mode); }, v0, h0);
        o1 = c05::callView([&] { return nix::util::dataSlice(a, s1, en1, u1, mode); }, v1, h1);
        ctx.trace << " dataSlice";
    } else {
        bool oneD = R == 1;
        auto store = [&](const std::string &n, const std::vector<double> &row) {
            nix::NDSize shape = oneD ? nix::NDSize({static_cast<nix::ndsize_t>(1)}) : nix::NDSize({static_cast<nix::ndsize_t>(1), static_cast<nix::ndsize_t>(R)});
            nix::DataArray x = b.createDataArray(n, "t", nix::DataType::Double, shape);
            x.setData(nix::DataType::Double, row.data(), shape, nix::NDSize(shape.size(), 0));
            return x;
        };
        nix::MultiTag m0 = b.createMultiTag("m0", "t", store("pos0", p0)), m1 = b.createMultiTag("m1", "t", store("pos1", p1));
        if (hasExt) { m0.extents(store("ext0", e0)); m1.extents(store("ext1", e1)); }
        m0.units(u0);
        m1.units(u1);
        m0.addReference(a);
        m1.addReference(a);
        o0 = c05::callView([&] { return nix::util::taggedData(m0, 0, a, mode); }, v0, h0);
        o1 = c05::callView([&] { return nix::util::taggedData(m1, 0, a, mode); }, v1, h1);
        ctx.trace << " MultiTag";
    }
    ctx.count(std::string("retrieval:") + (kind == 0 ? "tag" : kind == 1 ? "slice" : "multitag") + (o0.got ? ":data" : ":error"));
    if (!o0.got && getenv("C18_DEBUG")) std::cerr << "ERR " << o0.extype << " " << o0.what << " | " << ctx.trace.str() << "\n";
    VCHECK(o0.got == o1.got, "the request in the dimension's unit gives [" << describeView(o0, v0) << "] but the same request in scaled units gives [" << describeView(o1, v1) << "]");
    if (o0.got) {
        VCHECK(v0->dataExtent() == v1->dataExtent() && readView(*v0) == readView(*v1),
               "the request in the dimension's unit selects [" << describeView(o0, v0) << "] but the same request in scaled units selects [" << describeView(o1, v1) << "]");
    }
    ctx.nontrivial = differentPrefix;
    f.close();
}

static void body(Tape &t, Ctx &ctx) {
    if (t.pick({3, 2}) == 0) algebra(t, ctx);
    else retrieval(t, ctx);
}

} // namespace c18
