// h_tree - C02 C03 C04 C08 C09 C11 C12 C16 C20 over API programs and snapshots
#include "common.hpp"
#include "newguard.hpp"
#include "nixutil.hpp"
#include "tree_props.hpp"
#include "c03.hpp"
#include "c20.hpp"
#include "c09.hpp"
#include "c11.hpp"
#include "c16.hpp"

using namespace vf;

// The harness owns the clock (C12): the library's calls of time() resolve to this definition.
extern "C" long g_fake_time;
long g_fake_time = -1;
extern "C" time_t time(time_t *out) {
    static long env_time = [] {
        const char *e = getenv("VERIF_FAKE_TIME");
        return e ? atol(e) : -1L;
    }();
    time_t v;
    if (g_fake_time >= 0) v = static_cast<time_t>(g_fake_time);
    else if (env_time >= 0) v = static_cast<time_t>(env_time);
    else {
        struct timespec ts;
        clock_gettime(CLOCK_REALTIME, &ts);
        v = ts.tv_sec;
    }
    if (out) *out = v;
    return v;
}

int main(int argc, char **argv) {
    if (argc >= 3 && std::string(argv[1]) == "dump") {
        // print the snapshot of a file (used as "another process" by C02 / C11)
        H5Eset_auto2(H5E_DEFAULT, nullptr, nullptr);
        try {
            nix::File f = nix::File::open(argv[2], nix::FileMode::ReadOnly);
            std::cout << flatStr(snapshot(f));
            f.close();
            return 0;
        } catch (const std::exception &e) {
            std::cout << "<open failed: " << e.what() << ">\n";
            return 4;
        }
    }
    if (argc >= 4 && std::string(argv[1]) == "idworker") {
        H5Eset_auto2(H5E_DEFAULT, nullptr, nullptr);
        try {
            for (auto &id : tp::idWorker(argv[2], static_cast<size_t>(atoi(argv[3])))) std::cout << id << "\n";
            return 0;
        } catch (const std::exception &e) {
            std::cerr << e.what() << "\n";
            return 4;
        }
    }
    if (argc < 3) {
        fprintf(stderr, "usage: h_tree <c02|c03|c04|c08|c09|c11|c12|c16|c20> run|replay <tape> [--out f] [--work d]\n");
        return 2;
    }
    char self[4096];
    ssize_t n = readlink("/proc/self/exe", self, sizeof self - 1);
    tp::g_self = n > 0 ? std::string(self, static_cast<size_t>(n)) : std::string(argv[0]);
    c11::g_self = tp::g_self;
    std::string prop = argv[1];
    Options opt = parse_args(argc, argv, 2);
    int rc = 2;
    if (prop == "c02") rc = drive("C02", opt, tp::c02);
    else if (prop == "c03") rc = drive("C03", opt, c03::body);
    else if (prop == "c04") rc = drive("C04", opt, tp::c04);
    else if (prop == "c08") rc = drive("C08", opt, tp::c08);
    else if (prop == "c20") rc = drive("C20", opt, c20::body);
    else if (prop == "c09") rc = drive("C09", opt, c09::body);
    else if (prop == "c11") rc = drive("C11", opt, c11::body);
    else if (prop == "c16") rc = drive("C16", opt, c16::body);
    else if (prop == "c12") rc = drive("C12", opt, tp::c12);
    if (opt.own_work) rm_rf(opt.work);
    // leave without exit handlers: after a failed case entities may still be open, and HDF5's own
    // termination routine is not part of what is checked
    fflush(nullptr);
    _exit(rc);
}
