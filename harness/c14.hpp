// c14.hpp - metadata property values against a model (type, vector, unit, uncertainty, definition)
#pragma once

namespace c14 {

using nix::DataType;
using nix::Variant;

static const DataType VT[7] = {DataType::Bool, DataType::Int32, DataType::UInt32, DataType::Int64, DataType::UInt64, DataType::Double, DataType::String};

static Variant genValue(Tape &t, DataType dt) {
    switch (dt) {
    case DataType::Bool: return Variant(t.flip());
    case DataType::Int32: {
        static const int32_t sp[] = {0, 1, -1, INT32_MAX, INT32_MIN};
        return Variant(t.chance(50) ? sp[t.below(5)] : static_cast<int32_t>(t.word()));
    }
    case DataType::UInt32: {
        static const uint32_t sp[] = {0u, 1u, UINT32_MAX, 0x80000000u};
        return Variant(t.chance(50) ? sp[t.below(4)] : t.word());
    }
    case DataType::Int64: {
        static const int64_t sp[] = {0, 1, -1, INT64_MAX, INT64_MIN, 1ll << 53};
        return Variant(t.chance(50) ? sp[t.below(6)] : static_cast<int64_t>(t.word64()));
    }
    case DataType::UInt64: {
        static const uint64_t sp[] = {0ull, 1ull, UINT64_MAX, 1ull << 63};
        return Variant(t.chance(50) ? sp[t.below(4)] : t.word64());
    }
    case DataType::Double: {
        static const double sp[] = {0.0, -0.0, 1.0, -1.5, DBL_MAX, -DBL_MAX, DBL_MIN, 4.9406564584124654e-324, std::numeric_limits<double>::quiet_NaN(),
                                    std::numeric_limits<double>::infinity(), -std::numeric_limits<double>::infinity(), 0.1};
        return Variant(t.chance(60) ? sp[t.below(12)] : (t.unit() - 0.5) * 1e6);
    }
    default: {
        static const char *pool[] = {"", "a", " ", "a b", "\xc3\xa4\xc3\xb6", "\xe2\x82\xac", "x/y", "..", "\xf0\x9f\x98\x80 smile", "line\nbreak"};
        switch (t.pick({6, 3, 1})) {
        case 0: return Variant(std::string(pool[t.below(10)]));
        case 1: {
            std::string s;
            size_t n = t.below(60);
            for (size_t i = 0; i < n; i++) s += static_cast<char>(1 + t.below(254));
            return Variant(s);
        }
        default: return Variant(std::string(500 + t.below(1500), 'y'));
        }
    }
    }
}

static bool veq(const Variant &a, const Variant &b) {
    if (a.type() != b.type()) return false;
    switch (a.type()) {
    case DataType::Bool: return a.get<bool>() == b.get<bool>();
    case DataType::Int32: return a.get<int32_t>() == b.get<int32_t>();
    case DataType::UInt32: return a.get<uint32_t>() == b.get<uint32_t>();
    case DataType::Int64: return a.get<int64_t>() == b.get<int64_t>();
    case DataType::UInt64: return a.get<uint64_t>() == b.get<uint64_t>();
    case DataType::Double: {
        double x = a.get<double>(), y = b.get<double>();
        if (x != x || y != y) return x != x && y != y;
        return memcmp(&x, &y, sizeof x) == 0;
    }
    case DataType::String: return a.get<std::string>() == b.get<std::string>();
    default: return false;
    }
}

static std::string vshow(const Variant &a) {
    std::ostringstream os;
    switch (a.type()) {
    case DataType::Bool: os << (a.get<bool>() ? "true" : "false"); break;
    case DataType::Int32: os << a.get<int32_t>(); break;
    case DataType::UInt32: os << a.get<uint32_t>(); break;
    case DataType::Int64: os << a.get<int64_t>(); break;
    case DataType::UInt64: os << a.get<uint64_t>(); break;
    case DataType::Double: os << dstr(a.get<double>()); break;
    case DataType::String: { std::string s = a.get<std::string>(); os << show(s.size() > 20 ? s.substr(0, 20) + "..." : s); break; }
    default: os << "<nothing>";
    }
    return os.str();
}

struct PM {
    DataType dt;
    std::vector<Variant> vals;
    bool vals_known = false;
    boost::optional<std::string> unit, definition;
    boost::optional<double> uncertainty;
};

static void check(const nix::Property &p, const PM &m, const char *when) {
    VCHECK(p.dataType() == m.dt, when << ": dataType() is " << nix::data_type_to_string(p.dataType()) << ", property was created as "
                                      << nix::data_type_to_string(m.dt));
    if (m.vals_known) {
        std::vector<Variant> got = p.values();
        VCHECK(p.valueCount() == m.vals.size(), when << ": valueCount() = " << p.valueCount() << ", " << m.vals.size() << " values were assigned last");
        VCHECK(got.size() == m.vals.size(), when << ": values() returns " << got.size() << " values, " << m.vals.size() << " were assigned last");
        for (size_t i = 0; i < got.size(); i++) {
            VCHECK(got[i].type() == m.dt, when << ": value " << i << " has type " << nix::data_type_to_string(got[i].type()));
            VCHECK(veq(got[i], m.vals[i]), when << ": value " << i << " reads " << vshow(got[i]) << ", assigned " << vshow(m.vals[i]));
        }
    }
    VCHECK(c13::optEq(p.unit(), m.unit), when << ": unit reads " << (p.unit() ? *p.unit() : "<none>") << ", set " << (m.unit ? *m.unit : "<none>"));
    VCHECK(c13::optEq(p.definition(), m.definition), when << ": definition differs");
    boost::optional<double> u = p.uncertainty();
    VCHECK(static_cast<bool>(u) == static_cast<bool>(m.uncertainty) && (!u || *u == *m.uncertainty || (*u != *u && *m.uncertainty != *m.uncertainty)),
           when << ": uncertainty differs");
}

static void body(Tape &t, Ctx &ctx) {
    std::string path = ctx.path("c14.nix");
    nix::File file = nix::File::open(path, nix::FileMode::Overwrite);
    nix::Section sec = file.createSection("s", "t");
    PM m;
    m.dt = VT[t.below(7)];
    nix::Property p;
    size_t how = t.below(3);
    ctx.trace << "C14 " << nix::data_type_to_string(m.dt) << " create" << how << " ";
    if (how == 0) {
        p = sec.createProperty("p", m.dt);
    } else if (how == 1) {
        Variant v = genValue(t, m.dt);
        p = sec.createProperty("p", v);
        m.vals = {v};
        m.vals_known = true;
    } else {
        size_t n = 1 + t.below(t.chance(20) ? 64 : 6);
        for (size_t i = 0; i < n; i++) m.vals.push_back(genValue(t, m.dt));
        p = sec.createProperty("p", m.vals);
        m.vals_known = true;
    }
    check(p, m, "after create");
    size_t assigns = 0, reopens = 0, rejections = 0;
    std::set<size_t> lens;
    size_t nops = 1 + t.below(24);
    for (size_t op = 0; op < nops; op++) {
        if (op > 0 && t.exhausted()) break;
        size_t kind = t.pick({8, 2, 1, 3, 2, 2, 2, 2, 3, 3});
        if (kind == 0) {
            size_t n;
            switch (t.pick({3, 3, 1, 1})) {
            case 0: n = t.below(4); break;
            case 1: n = 1 + t.below(12); break;
            case 2: n = 64; break;
            default: n = t.below(65); break;
            }
            std::vector<Variant> v;
            for (size_t i = 0; i < n; i++) v.push_back(genValue(t, m.dt));
            ctx.trace << "values(" << n << ") ";
            p.values(v);
            m.vals = v;
            m.vals_known = true;
            assigns++;
            lens.insert(n);
        } else if (kind == 1) {
            ctx.trace << "deleteValues ";
            p.deleteValues();
            m.vals.clear();
            m.vals_known = true;
        } else if (kind == 2) {
            ctx.trace << "values(none) ";
            p.values(boost::none);
            m.vals.clear();
            m.vals_known = true;
        } else if (kind == 3) {
            // wrong type / mixed types: must be rejected and change nothing
            DataType other = VT[(static_cast<size_t>(std::find(VT, VT + 7, m.dt) - VT) + 1 + t.below(6)) % 7];
            std::vector<Variant> v;
            size_t n = 1 + t.below(5);
            bool mixed = t.flip();
            size_t bad = t.below(static_cast<uint32_t>(n));
            for (size_t i = 0; i < n; i++) v.push_back(genValue(t, (mixed && i != bad) ? m.dt : other));
            if (mixed && n == 1) mixed = false;
            ctx.trace << (mixed ? "values(mixed," : "values(wrongtype,") << n << ") ";
            bool threw = false;
            try {
                p.values(v);
            } catch (const std::exception &) {
                threw = true;
            }
            VCHECK(threw, "values of type " << nix::data_type_to_string(other) << " were accepted by a property of type " << nix::data_type_to_string(m.dt));
            rejections++;
        } else if (kind == 4) {
            static const char *units[] = {"mV", "s", "kHz", "foo", "m/s", "\xc2\xb5V", "%"};
            std::string u = units[t.below(7)];
            ctx.trace << "unit(" << show(u) << ") ";
            p.unit(u);
            m.unit = u;
        } else if (kind == 5) {
            ctx.trace << "unit(none) ";
            p.unit(boost::none);
            m.unit = boost::none;
        } else if (kind == 6) {
            double u = t.chance(50) ? 0.5 : (t.unit() * 10.0);
            ctx.trace << "uncertainty(" << dstr(u) << ") ";
            p.uncertainty(u);
            m.uncertainty = u;
        } else if (kind == 7) {
            if (t.flip()) {
                ctx.trace << "uncertainty(none) ";
                p.uncertainty(boost::none);
                m.uncertainty = boost::none;
            } else {
                ctx.trace << "definition(none) ";
                p.definition(nix::none);
                m.definition = boost::none;
            }
        } else if (kind == 8) {
            static const char *defs[] = {"a definition", "d", "\xc3\xa4 def", "multi\nline"};
            std::string d = defs[t.below(4)];
            ctx.trace << "definition(" << show(d) << ") ";
            p.definition(d);
            m.definition = d;
        } else {
            bool ro = t.flip();
            ctx.trace << "reopen(" << (ro ? "ro" : "rw") << ") ";
            file.close();
            if (ro) {
                file = nix::File::open(path, nix::FileMode::ReadOnly);
                sec = file.getSection("s");
                p = sec.getProperty("p");
                check(p, m, "after ReadOnly reopen");
                file.close();
            }
            file = nix::File::open(path, nix::FileMode::ReadWrite);
            sec = file.getSection("s");
            p = sec.getProperty("p");
            reopens++;
        }
        check(p, m, "after step");
    }
    file.close();
    file = nix::File::open(path, nix::FileMode::ReadOnly);
    sec = file.getSection("s");
    p = sec.getProperty("p");
    check(p, m, "after the final reopen");
    file.close();
    ctx.count(std::string("type_") + nix::data_type_to_string(m.dt));
    if (rejections) ctx.count("with_rejection");
    ctx.nontrivial = (lens.size() >= 2 && reopens >= 1) || rejections >= 1;
}

} // namespace c14
