// h_array - C01 (array data), C13 (dimension descriptors), C14 (property values), C15 (data frames)
#include "common.hpp"
#include "nixutil.hpp"
#include "axis.hpp"

using namespace vf;

#include "c01.hpp"
#include "c13.hpp"
#include "c14.hpp"
#include "c15.hpp"

int main(int argc, char **argv) {
    if (argc < 3) {
        fprintf(stderr, "usage: h_array <c01|c13|c14|c15> run|replay <tape> [--out f] [--work d]\n");
        return 2;
    }
    std::string prop = argv[1];
    Options opt = parse_args(argc, argv, 2);
    int rc = 2;
    if (prop == "c01") rc = drive("C01", opt, c01::body);
    if (prop == "c13") rc = drive("C13", opt, c13::body);
    if (prop == "c14") rc = drive("C14", opt, c14::body);
    if (prop == "c15") rc = drive("C15", opt, c15::body);
    if (opt.own_work) rm_rf(opt.work);
    // leave without exit handlers: after a failed case entities may still be open, and HDF5's own
    // termination routine is not part of what is checked
    fflush(nullptr);
    _exit(rc);
}
