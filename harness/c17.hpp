// c17.hpp - C17: position based slices and DataView windows address exactly their region.
#pragma once
#include "c05.hpp"

namespace c17 {

using namespace vf;
using namespace rg;
using c05::Outcome;

// ---------------------------------------------------------------------------------------------------
// slices
static void slices(Tape &t, Ctx &ctx) {
    nix::File f = nix::File::open(ctx.path("c17.nix"), nix::FileMode::Overwrite);
    nix::Block b = f.createBlock("b", "t");
    bool wantUnits = t.chance(35);
    ArraySpec s = genArray(t, 1, 3, 9, wantUnits);
    nix::DataArray a = buildArray(b, "data", s);
    nix::RangeMatch mode = t.flip() ? nix::RangeMatch::Exclusive : nix::RangeMatch::Inclusive;
    size_t R = s.rank();
    bool tooMany = t.chance(4);
    size_t ns = tooMany ? R + 1 : (t.chance(50) ? R : t.below(static_cast<uint32_t>(R + 1)));
    size_t ne = tooMany ? R + t.below(2) : (t.chance(60) ? ns : t.below(static_cast<uint32_t>(R + 1)));
    if (tooMany && t.flip()) std::swap(ns, ne);
    // units only for dimensions whose start AND end are given (a unit for a filled-in bound has no meaning)
    size_t nuMax = std::min(std::min(ns, ne), R);
    size_t nu = wantUnits ? (t.chance(70) ? nuMax : t.below(static_cast<uint32_t>(nuMax + 1))) : 0;
    std::vector<double> start, end;
    std::vector<std::string> units;
    std::vector<DimReq> req(R), lo(R), hi(R);
    std::vector<int> eqDims;
    bool startAfterEnd = false, near = false, scaled = false;
    std::ostringstream tr;
    for (size_t d = 0; d < std::max(ns, ne); d++) {
        if (d >= R) {
            if (d < ns) start.push_back(0.0);
            if (d < ne) end.push_back(1.0);
            continue;
        }
        const Axis &ax = s.dims[d].axis;
        uint64_t n = s.ext[d];
        std::string unit = "none";
        double fct = 1.0;
        bool scaledHere = false;
        if (d < nu && !ax.unit.empty() && (ax.kind == AK::Sampled || ax.kind == AK::Range)) {
            std::string base;
            int e10 = 0;
            if (c05::splitPUnit(ax.unit, base, e10)) {
                switch (t.pick({2, 3, 4})) {
                case 0: break;
                case 1: unit = ax.unit; break;
                default: {
                    auto &p = PREFIXES[t.below(6)];
                    unit = std::string(p.first) + base;
                    fct = pow10i(p.second - e10);
                    scaledHere = p.second != e10;
                    break;
                }
                }
            }
        }
        if (d < nu) units.push_back(unit);
        Pos q = genPos(t, ax, n, scaledHere);
        std::string ecls;
        bool enear = false;
        double ext = genExtent(t, ax, n, q, scaledHere, ecls, enear);
        double sv = scaledHere ? q.p / fct : q.p;
        double ev = scaledHere ? (q.p + ext) / fct : q.p + ext;
        if (d < ns) start.push_back(sv);
        if (d < ne) end.push_back(ev);
        tr << " [" << (d < ns ? q.cls + "=" + dstr(sv) : std::string("start-unspecified")) << " .. " << (d < ne ? ecls + "=" + dstr(ev) : std::string("end-unspecified"))
           << (unit != "none" ? " unit=" + unit : std::string()) << "]";
        if (scaledHere) scaled = true;
        if ((d < ns && q.near) || (d < ne && enear)) near = true;
    }
    // what the statement asks for, per data dimension
    for (size_t d = 0; d < R; d++) {
        const Axis &ax = s.dims[d].axis;
        bool sSpec = d < ns, eSpec = d < ne;
        if (!sSpec && !eSpec) continue; // unspecified: everything
        double fct = 1.0;
        if (d < units.size() && units[d] != "none" && units[d] != ax.unit) {
            std::string b1, b2;
            int e1 = 0, e2 = 0;
            c05::splitPUnit(units[d], b1, e1);
            c05::splitPUnit(ax.unit, b2, e2);
            fct = pow10i(e1 - e2);
        }
        auto mk = [&](double ff) {
            DimReq r;
            r.specified = true;
            r.start = sSpec ? start[d] * ff : ax.coord(0);
            r.end = eSpec ? end[d] * ff : ax.coord(s.ext[d] - 1);
            r.point = false;
            r.mode = eSpec ? mode : nix::RangeMatch::Inclusive; // a bound that is not given belongs to the slice
            return r;
        };
        req[d] = mk(fct);
        lo[d] = mk(fct * (1.0 - 1e-9));
        hi[d] = mk(fct * (1.0 + 1e-9));
        if (req[d].start > req[d].end) startAfterEnd = true;
        if (req[d].start == req[d].end) eqDims.push_back(static_cast<int>(d));
    }
    ctx.trace << "C17 slice " << s.describe() << tr.str() << " mode=" << c05::modeName(mode);
    Expect e = refRegion(s, req);
    if (scaled && !tooMany) {
        Expect x = refRegion(s, lo), y = refRegion(s, hi);
        if (!(x.error == e.error && y.error == e.error && x.off == e.off && y.off == e.off && x.cnt == e.cnt && y.cnt == e.cnt)) {
            ctx.count("excluded:scaled_request_sensitive_to_factor_rounding");
            f.close();
            return;
        }
    }
    nix::DataView *view = nullptr;
    std::unique_ptr<nix::DataView> hold;
    Outcome o;
    if (units.empty() && mode == nix::RangeMatch::Exclusive && t.flip()) o = c05::callView([&] { return nix::util::dataSlice(a, start, end); }, view, hold);
    else o = c05::callView([&] { return nix::util::dataSlice(a, start, end, units, mode); }, view, hold);
    std::string what = "dataSlice(start[" + std::to_string(ns) + "], end[" + std::to_string(ne) + "], units[" + std::to_string(units.size()) + "])";
    if (tooMany) {
        VCHECK(!o.got, what << ": more entries than dimensions but a view was returned");
        ctx.count("slice:too_many_entries_refused");
    } else if (startAfterEnd) {
        VCHECK(!o.got, what << ": start > end in some dimension but a view of shape " << ndstr(view->dataExtent()) << " was returned");
        ctx.count("slice:start_after_end_refused");
    } else if (!eqDims.empty()) {
        // start == end: the statement does not decide between "the single element at or after start" and an error
        std::vector<DimReq> alt = req;
        for (int d : eqDims) alt[d].point = true;
        Expect pe = refRegion(s, alt);
        if (o.got) {
            VCHECK(!pe.error, what << ": start == end and no element at or after it inside the data, but a view was returned");
            std::string mm = viewMismatch(s, *view, pe);
            VCHECK(mm.empty(), what << " (start == end in a dimension): " << mm);
        }
        ctx.count(o.got ? "slice:start_equals_end_element" : "slice:start_equals_end_error");
    } else if (e.error) {
        VCHECK(!o.got, what << ": expected an error (" << e.why << ") but a view of shape " << ndstr(view->dataExtent()) << " was returned");
        ctx.count("slice:error_" + std::string(e.why.find("outside") != std::string::npos ? "outside_data" : "empty"));
    } else {
        VCHECK(o.got, what << ": expected " << e.str() << " but " << o.extype << " was thrown: " << o.what);
        std::string mm = viewMismatch(s, *view, e);
        VCHECK(mm.empty(), what << ": " << mm);
        ctx.count("slice:block_returned");
    }
    bool fewer = ns < R || ne < R;
    ctx.nontrivial = !tooMany && (fewer || (near && !e.error) || startAfterEnd);
    if (fewer) ctx.count("slice:fewer_entries_than_dimensions");
    if (ns != ne) ctx.count("slice:start_and_end_of_different_length");
    f.close();
}

// ---------------------------------------------------------------------------------------------------
// DataView windows
static void views(Tape &t, Ctx &ctx) {
    nix::File f = nix::File::open(ctx.path("c17v.nix"), nix::FileMode::Overwrite);
    nix::Block b = f.createBlock("b", "t");
    size_t R = 1 + t.below(3);
    std::vector<uint64_t> ext(R);
    uint64_t total = 1;
    nix::NDSize shape(R, 0);
    for (size_t d = 0; d < R; d++) { ext[d] = 1 + t.below(6); shape[d] = ext[d]; total *= ext[d]; }
    nix::DataArray a = b.createDataArray("data", "t", nix::DataType::Double, shape);
    std::vector<double> model(total);
    for (size_t i = 0; i < total; i++) model[i] = static_cast<double>(i);
    a.setData(nix::DataType::Double, model.data(), shape, nix::NDSize(R, 0));
    // the window
    nix::NDSize wo(R, 0), wc(R, 1);
    bool outside = t.chance(6);
    for (size_t d = 0; d < R; d++) {
        wo[d] = t.below(static_cast<uint32_t>(ext[d]));
        wc[d] = 1 + t.below(static_cast<uint32_t>(ext[d] - wo[d]));
    }
    if (outside) { size_t d = t.below(static_cast<uint32_t>(R)); wc[d] = ext[d] - wo[d] + 1 + t.below(2); }
    ctx.trace << "C17 view: array " << ndstr(shape) << " window offset " << ndstr(wo) << " count " << ndstr(wc);
    std::unique_ptr<nix::DataView> v;
    try {
        v.reset(new nix::DataView(a, wc, wo));
    } catch (const std::exception &e) {
        VCHECK(outside, "a window inside the array could not be created: " << e.what());
        ctx.count("view:window_outside_array_refused");
        ctx.nontrivial = true;
        f.close();
        return;
    }
    VCHECK(!outside, "a DataView whose window leaves the array was created");
    auto lin = [&](const std::vector<uint64_t> &idx) {
        uint64_t l = 0;
        for (size_t d = 0; d < R; d++) l = l * ext[d] + idx[d];
        return l;
    };
    auto fullScan = [&](const std::string &when) {
        std::vector<double> all(total, -7.0);
        a.getData(nix::DataType::Double, all.data(), shape, nix::NDSize(R, 0));
        for (size_t i = 0; i < total; i++)
            VCHECK(all[i] == model[i], when << ": element " << i << " of the underlying array is " << all[i] << ", expected " << model[i]);
    };
    size_t nreq = 4 + t.below(16);
    bool crossed1 = false, writeThenRead = false, wrote = false;
    double nextVal = 1000.0;
    for (size_t q = 0; q < nreq; q++) {
        nix::NDSize rc(R, 1), ro(R, 0);
        std::string cls;
        bool expectOOB = false, expectAny = false, emptyOff = false, emptyCnt = false;
        switch (t.pick({6, 3, 4, 1, 2, 1, 1})) {
        case 0: // inside
            for (size_t d = 0; d < R; d++) { ro[d] = t.below(static_cast<uint32_t>(wc[d])); rc[d] = 1 + t.below(static_cast<uint32_t>(wc[d] - ro[d])); }
            cls = "inside";
            break;
        case 1: // touching the far edge
            for (size_t d = 0; d < R; d++) { ro[d] = t.below(static_cast<uint32_t>(wc[d])); rc[d] = wc[d] - ro[d]; }
            cls = "touching_edge";
            break;
        case 2: { // crossing the edge in exactly one dimension
            for (size_t d = 0; d < R; d++) { ro[d] = t.below(static_cast<uint32_t>(wc[d])); rc[d] = 1 + t.below(static_cast<uint32_t>(wc[d] - ro[d])); }
            size_t d = t.below(static_cast<uint32_t>(R));
            if (t.flip()) rc[d] = wc[d] - ro[d] + 1 + t.below(2);
            else { ro[d] = wc[d] + t.below(2); rc[d] = 1; }
            cls = "crossing_edge_dim" + std::to_string(d);
            expectOOB = true;
            crossed1 = true;
            break;
        }
        case 3: // rank mismatch
            rc = nix::NDSize(R + 1, 1);
            ro = nix::NDSize(R + 1, 0);
            cls = "rank_mismatch";
            expectAny = true;
            break;
        case 4: { // values near 2^64
            for (size_t d = 0; d < R; d++) { ro[d] = 0; rc[d] = 1; }
            size_t d = t.below(static_cast<uint32_t>(R));
            if (t.flip()) { ro[d] = std::numeric_limits<nix::ndsize_t>::max() - t.below(3); rc[d] = 1 + t.below(4); }
            else { ro[d] = t.below(static_cast<uint32_t>(wc[d])); rc[d] = std::numeric_limits<nix::ndsize_t>::max() - t.below(3); }
            cls = "near_2^64";
            expectOOB = true;
            break;
        }
        case 5: // no offset given: the request starts at the window origin
            for (size_t d = 0; d < R; d++) rc[d] = 1 + t.below(static_cast<uint32_t>(wc[d]));
            emptyOff = true;
            cls = "no_offset";
            break;
        default: // neither count nor offset: the whole window
            rc = wc;
            emptyOff = true;
            emptyCnt = true;
            cls = "whole_window";
            break;
        }
        bool isWrite = t.chance(40);
        uint64_t n = 1;
        bool hugeCount = false;
        for (size_t d = 0; d < rc.size(); d++) { if (rc[d] > 64) hugeCount = true; else n *= rc[d]; }
        if (hugeCount) n = 8; // the buffer is never touched by a refused request
        std::vector<double> buf(n, -5.0);
        if (isWrite) for (auto &x : buf) x = nextVal++;
        ctx.trace << " " << (isWrite ? "W" : "R") << ":" << cls << ndstr(ro) << "+" << ndstr(rc);
        bool threw = false, oob = false;
        std::string extype;
        try {
            nix::NDSize argC = emptyCnt ? nix::NDSize() : rc, argO = emptyOff ? nix::NDSize() : ro;
            if (isWrite) v->setData(nix::DataType::Double, buf.data(), argC, argO);
            else v->getData(nix::DataType::Double, buf.data(), argC, argO);
        } catch (const nix::OutOfBounds &e) { threw = true; oob = true; extype = "nix::OutOfBounds"; } catch (const std::exception &e) { threw = true; extype = typeid(e).name(); }
        ctx.count(std::string("view:") + (isWrite ? "write:" : "read:") + (cls.compare(0, 8, "crossing") == 0 ? "crossing_edge" : cls));
        if (expectOOB || expectAny) {
            VCHECK(threw, "a " << (isWrite ? "write" : "read") << " request " << cls << " offset " << ndstr(ro) << " count " << ndstr(rc) << " on a window of " << ndstr(wc)
                               << " returned normally");
            if (expectOOB) VCHECK(oob, "a request extending past the window must raise nix::OutOfBounds, got " << extype);
            if (!isWrite) for (size_t i = 0; i < buf.size(); i++) VCHECK(buf[i] == -5.0, "a refused read request transferred data into the caller's buffer (element " << i << ")");
            fullScan("after the refused " + cls + " request");
            continue;
        }
        VCHECK(!threw, "a " << (isWrite ? "write" : "read") << " request inside the window (" << cls << " offset " << ndstr(ro) << " count " << ndstr(rc) << ", window " << ndstr(wc)
                            << ") threw " << extype);
        // walk the request
        std::vector<uint64_t> idx(R, 0), pos(R);
        for (uint64_t k = 0; k < n; k++) {
            for (size_t d = 0; d < R; d++) pos[d] = wo[d] + (emptyOff ? 0 : ro[d]) + idx[d];
            uint64_t l = lin(pos);
            if (isWrite) model[l] = buf[k];
            else VCHECK(buf[k] == model[l], "read through the view: element " << k << " of the request is " << buf[k] << " but the array holds " << model[l] << " at window origin + offset");
            for (size_t d = R; d-- > 0;) {
                if (++idx[d] < rc[d]) break;
                idx[d] = 0;
            }
        }
        if (isWrite) { fullScan("after the write request " + cls); wrote = true; }
        else if (wrote) writeThenRead = true;
    }
    fullScan("at the end");
    ctx.nontrivial = crossed1 || writeThenRead;
    f.close();
}

static void body(Tape &t, Ctx &ctx) {
    if (t.pick({3, 2}) == 0) slices(t, ctx);
    else views(t, ctx);
}

} // namespace c17
