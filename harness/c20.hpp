// c20.hpp - C20: tree searches and back-reference queries equal a brute-force traversal.
//
// A case builds section and source trees (depth <= 5, branching <= 4, equal names in different
// parents), entities with metadata / source assignments, section links and properties, performs a few
// deletions, and then asks many queries. The expected answers are computed on the *snapshot* of the
// file (taken through the index getters only: getSection(i), getSource(i), metadata(), getSource(i) of
// the attached list ...), never through the search functions under test.
#pragma once
#include "snapshot.hpp"

namespace c20 {

using namespace vf;

struct Flt {
    int kind = 0; // 0 all, 1 id, 2 name, 3 type, 4 id set
    std::string arg;
    std::set<std::string> ids;
    bool match(const Ent &e) const {
        switch (kind) {
        case 0: return true;
        case 1: return e.id == arg;
        case 2: return e.name == arg;
        case 3: {
            for (auto &a : e.attrs) if (a.first == "type") return a.second == arg;
            return false;
        }
        default: return ids.count(e.id) > 0;
        }
    }
    std::string str() const {
        static const char *n[] = {"all", "id", "name", "type", "ids"};
        std::string s = n[kind];
        if (kind >= 1 && kind <= 3) s += "=" + show(arg);
        if (kind == 4) s += "{" + std::to_string(ids.size()) + "}";
        return s;
    }
    template <typename T> typename nix::util::Filter<T>::type make() const {
        switch (kind) {
        case 1: return nix::util::IdFilter<T>(arg);
        case 2: return nix::util::NameFilter<T>(arg);
        case 3: return nix::util::TypeFilter<T>(arg);
        case 4: return nix::util::IdsFilter<T>(std::vector<std::string>(ids.begin(), ids.end()));
        default: return nix::util::AcceptAll<T>();
        }
    }
};

static const std::vector<Ent> &kidsOf(const Ent &e, const char *what) {
    static const std::vector<Ent> none;
    for (auto &k : e.kids) if (k.first == what) return k.second;
    return none;
}

// breadth-first list below `start`; children are depth 1; includeStart puts start itself at depth 0
static void bfs(const Ent &start, const char *what, size_t limit, bool includeStart, const Flt &f, std::vector<std::string> &out, std::set<size_t> *levels = nullptr) {
    std::deque<std::pair<const Ent *, size_t>> q;
    if (includeStart) q.emplace_back(&start, 0);
    else if (limit >= 1) for (auto &c : kidsOf(start, what)) q.emplace_back(&c, 1);
    while (!q.empty()) {
        auto cur = q.front();
        q.pop_front();
        if (f.match(*cur.first)) {
            out.push_back(cur.first->id);
            if (levels) levels->insert(cur.second);
        }
        if (cur.second < limit) for (auto &c : kidsOf(*cur.first, what)) q.emplace_back(&c, cur.second + 1);
    }
}

static size_t depthBelow(const Ent &e, const char *what) {
    size_t d = 0;
    for (auto &c : kidsOf(e, what)) d = std::max(d, 1 + depthBelow(c, what));
    return d;
}

template <typename T> static std::vector<std::string> idsOf(const std::vector<T> &v) {
    std::vector<std::string> r;
    for (auto &x : v) r.push_back(x.id());
    return r;
}
static std::vector<std::string> sorted(std::vector<std::string> v) {
    std::sort(v.begin(), v.end());
    return v;
}
static std::string join(const std::vector<std::string> &v) {
    std::string s = "[";
    for (size_t i = 0; i < v.size(); i++) s += (i ? " " : "") + v[i].substr(0, 8);
    return s + "]";
}

struct Case {
    Tape &t;
    Ctx &ctx;
    nix::File f;
    Ent snap;
    std::vector<std::pair<nix::Section, const Ent *>> secs;
    std::vector<std::pair<nix::Source, const Ent *>> srcs; // with the block's Ent in srcBlock
    std::vector<const Ent *> srcBlock;
    std::vector<std::pair<nix::Block, const Ent *>> blocks;
    bool deep_hit = false;
    size_t deletions = 0;

    static const char *nm(Tape &t) {
        static const char *pool[] = {"a", "b", "c", "d", "e", "x", "y"};
        return pool[t.below(7)];
    }
    static const char *ty(Tape &t) {
        static const char *pool[] = {"t", "typeA", "typeB"};
        return pool[t.below(3)];
    }

    void collectSections(const nix::Section &s, const Ent &e) {
        secs.emplace_back(s, &e);
        const std::vector<Ent> &k = kidsOf(e, "sections");
        for (size_t i = 0; i < k.size(); i++) collectSections(s.getSection(i), k[i]);
    }
    void collectSources(const nix::Source &s, const Ent &e, const Ent *blk) {
        srcs.emplace_back(s, &e);
        srcBlock.push_back(blk);
        const std::vector<Ent> &k = kidsOf(e, "sources");
        for (size_t i = 0; i < k.size(); i++) collectSources(s.getSource(i), k[i], blk);
    }
    void index() {
        snap = snapshot(f);
        secs.clear(); srcs.clear(); srcBlock.clear(); blocks.clear();
        const std::vector<Ent> &rs = kidsOf(snap, "sections");
        for (size_t i = 0; i < rs.size(); i++) collectSections(f.getSection(i), rs[i]);
        const std::vector<Ent> &bs = kidsOf(snap, "blocks");
        for (size_t i = 0; i < bs.size(); i++) {
            nix::Block b = f.getBlock(i);
            blocks.emplace_back(b, &bs[i]);
            const std::vector<Ent> &ss = kidsOf(bs[i], "sources");
            for (size_t k = 0; k < ss.size(); k++) collectSources(b.getSource(k), ss[k], &bs[i]);
        }
    }

    // ---- construction ---------------------------------------------------------------------------
    void build() {
        size_t nsec = t.chance(85) ? 4 + t.below(22) : t.below(4);
        std::vector<std::pair<nix::Section, size_t>> ss; // (section, depth)
        for (size_t i = 0; i < nsec; i++) {
            try {
                if (ss.empty() || t.chance(12)) ss.emplace_back(f.createSection(nm(t), ty(t)), 1);
                else {
                    auto &p = ss[t.below(static_cast<uint32_t>(ss.size()))];
                    if (p.second >= 5 || p.first.sectionCount() >= 4) continue;
                    ss.emplace_back(p.first.createSection(nm(t), ty(t)), p.second + 1);
                }
            } catch (const nix::DuplicateName &) {
            }
        }
        // properties (few names: shadowing happens) and links
        for (auto &s : ss) {
            size_t np = t.below(4);
            for (size_t k = 0; k < np; k++) {
                try { s.first.createProperty(std::string("p") + std::to_string(t.below(4)), nix::Variant(static_cast<double>(t.below(9)))); } catch (const nix::DuplicateName &) {}
            }
        }
        for (auto &s : ss) if (t.chance(45) && ss.size() > 1) s.first.link(ss[t.below(static_cast<uint32_t>(ss.size()))].first);
        size_t nb = 1 + t.below(2);
        for (size_t bi = 0; bi < nb; bi++) {
            nix::Block b = f.createBlock("blk" + std::to_string(bi), ty(t));
            if (!ss.empty() && t.chance(50)) b.metadata(ss[t.below(static_cast<uint32_t>(ss.size()))].first);
            std::vector<std::pair<nix::Source, size_t>> so;
            size_t nso = t.chance(80) ? 3 + t.below(16) : t.below(3);
            for (size_t i = 0; i < nso; i++) {
                try {
                    if (so.empty() || t.chance(12)) so.emplace_back(b.createSource(nm(t), ty(t)), 1);
                    else {
                        auto &p = so[t.below(static_cast<uint32_t>(so.size()))];
                        if (p.second >= 5 || p.first.sourceCount() >= 4) continue;
                        so.emplace_back(p.first.createSource(nm(t), ty(t)), p.second + 1);
                    }
                } catch (const nix::DuplicateName &) {
                }
            }
            for (auto &s : so) if (!ss.empty() && t.chance(30)) s.first.metadata(ss[t.below(static_cast<uint32_t>(ss.size()))].first);
            size_t ne = t.below(8);
            for (size_t i = 0; i < ne; i++) {
                std::string n = "e" + std::to_string(i);
                auto meta = [&](auto ent) {
                    if (!ss.empty() && t.chance(60)) ent.metadata(ss[t.below(static_cast<uint32_t>(ss.size()))].first);
                    size_t k = so.empty() ? 0 : t.below(3);
                    for (size_t j = 0; j < k; j++) {
                        nix::Source s = so[t.below(static_cast<uint32_t>(so.size()))].first;
                        if (!ent.hasSource(s)) ent.addSource(s);
                    }
                };
                switch (t.below(4)) {
                case 0: meta(b.createDataArray(n, "t", nix::DataType::Double, nix::NDSize({1}))); break;
                case 1: meta(b.createTag(n, "t", {0.0})); break;
                case 2: {
                    nix::DataArray pos = b.createDataArray(n + "pos", "t", nix::DataType::Double, nix::NDSize({1}));
                    meta(b.createMultiTag(n, "t", pos));
                    break;
                }
                default: meta(b.createGroup(n, "t")); break;
                }
            }
        }
    }

    void deletions_() {
        size_t nd = t.chance(75) ? 1 + t.below(4) : 0;
        for (size_t i = 0; i < nd; i++) {
            index();
            switch (t.below(3)) {
            case 0: {
                if (secs.empty()) break;
                auto &s = secs[t.below(static_cast<uint32_t>(secs.size()))];
                nix::Section p = s.first.parent();
                bool ok = p ? p.deleteSection(s.first) : f.deleteSection(s.first);
                if (ok) { deletions++; ctx.trace << " del-section"; }
                break;
            }
            case 1: {
                if (srcs.empty()) break;
                size_t k = t.below(static_cast<uint32_t>(srcs.size()));
                nix::Source s = srcs[k].first;
                nix::Source p = s.parentSource();
                bool ok = false;
                if (p) ok = p.deleteSource(s);
                else for (auto &b : blocks) if (b.second == srcBlock[k]) ok = b.first.deleteSource(s);
                if (ok) { deletions++; ctx.trace << " del-source"; }
                break;
            }
            default: {
                if (blocks.empty()) break;
                nix::Block b = blocks[t.below(static_cast<uint32_t>(blocks.size()))].first;
                if (b.dataArrayCount() && t.flip()) { if (b.deleteDataArray(b.getDataArray(t.below(static_cast<uint32_t>(b.dataArrayCount()))))) { deletions++; ctx.trace << " del-array"; } }
                else if (b.tagCount()) { if (b.deleteTag(b.getTag(t.below(static_cast<uint32_t>(b.tagCount()))))) { deletions++; ctx.trace << " del-tag"; } }
                break;
            }
            }
        }
    }

    // ---- queries -------------------------------------------------------------------------------
    Flt filter(const std::vector<const Ent *> &universe) {
        Flt fl;
        fl.kind = static_cast<int>(t.pick({4, 2, 3, 4, 2}));
        const Ent *some = universe.empty() ? nullptr : universe[t.below(static_cast<uint32_t>(universe.size()))];
        switch (fl.kind) {
        case 1: fl.arg = (some && t.chance(85)) ? some->id : std::string("00000000-0000-0000-0000-000000000000"); break;
        case 2: fl.arg = (some && t.chance(85)) ? some->name : std::string("zz"); break;
        case 3: fl.arg = t.chance(90) ? ty(t) : "nomatch"; break;
        case 4: {
            size_t k = t.below(5);
            for (size_t i = 0; i < k && !universe.empty(); i++) fl.ids.insert(universe[t.below(static_cast<uint32_t>(universe.size()))]->id);
            if (t.chance(20)) fl.ids.insert("00000000-0000-0000-0000-000000000000");
            break;
        }
        default: break;
        }
        return fl;
    }

    void sectionQueries() {
        std::vector<const Ent *> uni;
        for (auto &s : secs) uni.push_back(s.second);
        size_t nq = 2 + t.below(6);
        for (size_t q = 0; q < nq; q++) {
            Flt fl = filter(uni);
            bool fileLevel = secs.empty() || t.chance(25);
            const Ent *startE = fileLevel ? &snap : secs[t.below(static_cast<uint32_t>(secs.size()))].second;
            if (!fileLevel && t.chance(60)) {
                // prefer a start with a deep subtree
                for (size_t tries = 0; tries < 4 && depthBelow(*startE, "sections") < 3; tries++) startE = secs[t.below(static_cast<uint32_t>(secs.size()))].second;
            }
            size_t depth = depthBelow(*startE, "sections");
            bool unlimited = t.chance(25);
            size_t limit = unlimited ? std::numeric_limits<size_t>::max()
                                     : (depth >= 2 && t.chance(50)) ? 1 + t.below(static_cast<uint32_t>(depth - 1)) : t.below(static_cast<uint32_t>(depth + 2));
            std::vector<std::string> expect, got;
            std::set<size_t> levels;
            if (fileLevel) {
                // roots are depth 1
                bfs(snap, "sections", limit, false, fl, expect, &levels);
                got = idsOf(unlimited ? (fl.kind == 0 && t.flip() ? f.findSections() : f.findSections(fl.make<nix::Section>())) : f.findSections(fl.make<nix::Section>(), limit));
                VCHECK(sorted(expect) == sorted(got), "File::findSections(" << fl.str() << ", " << (unlimited ? std::string("unlimited") : std::to_string(limit)) << ") returned "
                                                                            << join(got) << ", brute force (roots are depth 1) finds " << join(expect));
                ctx.count("query:File.findSections");
            } else {
                nix::Section s;
                for (auto &p : secs) if (p.second == startE) s = p.first;
                bfs(*startE, "sections", limit, false, fl, expect, &levels);
                got = idsOf(unlimited ? s.findSections(fl.make<nix::Section>()) : s.findSections(fl.make<nix::Section>(), limit));
                VCHECK(expect == got, "Section::findSections(" << fl.str() << ", " << (unlimited ? std::string("unlimited") : std::to_string(limit)) << ") started at "
                                                               << startE->id.substr(0, 8) << " returned " << join(got) << ", breadth-first brute force finds " << join(expect));
                ctx.count("query:Section.findSections");
            }
            if (depth >= 3 && !unlimited && limit >= 1 && limit < depth && levels.size() >= 2) deep_hit = true;
        }
        // back references, inherited properties, findRelated for a few sections
        size_t ns = std::min<size_t>(secs.size(), 1 + t.below(4));
        for (size_t k = 0; k < ns; k++) {
            auto &sp = secs[t.below(static_cast<uint32_t>(secs.size()))];
            const std::string sid = sp.second->id;
            std::map<std::string, std::vector<std::string>> exp;     // kind -> ids over the whole file
            std::map<std::string, std::map<std::string, std::vector<std::string>>> expB; // block id -> kind -> ids
            for (auto &b : kidsOf(snap, "blocks")) {
                for (auto &l : b.links) if (l.first == "metadata" && l.second == sid) exp["block"].push_back(b.id);
                std::function<void(const Ent &)> rec = [&](const Ent &e) {
                    if (e.kind == "array" || e.kind == "tag" || e.kind == "mtag" || e.kind == "source")
                        for (auto &l : e.links) if (l.first == "metadata" && l.second == sid) { exp[e.kind].push_back(e.id); expB[b.id][e.kind].push_back(e.id); }
                    for (auto &kk : e.kids) for (auto &c : kk.second) rec(c);
                };
                for (auto &kk : b.kids) for (auto &c : kk.second) rec(c);
            }
            auto cmp = [&](const char *what, const std::vector<std::string> &got, const std::vector<std::string> &want) {
                VCHECK(sorted(got) == sorted(want), "Section(" << sid.substr(0, 8) << ")::" << what << " returned " << join(got) << ", the entities whose metadata link points there are " << join(want));
                ctx.count(std::string("query:Section.") + what);
            };
            cmp("referringBlocks", idsOf(sp.first.referringBlocks()), exp["block"]);
            cmp("referringDataArrays", idsOf(sp.first.referringDataArrays()), exp["array"]);
            cmp("referringTags", idsOf(sp.first.referringTags()), exp["tag"]);
            cmp("referringMultiTags", idsOf(sp.first.referringMultiTags()), exp["mtag"]);
            cmp("referringSources", idsOf(sp.first.referringSources()), exp["source"]);
            for (auto &b : blocks) {
                cmp("referringDataArrays(block)", idsOf(sp.first.referringDataArrays(b.first)), expB[b.second->id]["array"]);
                cmp("referringTags(block)", idsOf(sp.first.referringTags(b.first)), expB[b.second->id]["tag"]);
                cmp("referringMultiTags(block)", idsOf(sp.first.referringMultiTags(b.first)), expB[b.second->id]["mtag"]);
                cmp("referringSources(block)", idsOf(sp.first.referringSources(b.first)), expB[b.second->id]["source"]);
            }
            // inherited properties: own + those of the linked section not shadowed by name
            {
                std::vector<std::string> want;
                std::set<std::string> ownNames;
                for (auto &p : kidsOf(*sp.second, "properties")) { want.push_back(p.id); ownNames.insert(p.name); }
                std::string linkId;
                for (auto &l : sp.second->links) if (l.first == "link") linkId = l.second;
                bool linked = false;
                if (!linkId.empty() && linkId != ABSENT) {
                    for (auto &o : secs) if (o.second->id == linkId) {
                        linked = true;
                        for (auto &p : kidsOf(*o.second, "properties")) if (!ownNames.count(p.name)) want.push_back(p.id);
                    }
                }
                std::vector<std::string> got = idsOf(sp.first.inheritedProperties());
                VCHECK(sorted(got) == sorted(want), "Section(" << sid.substr(0, 8) << ")::inheritedProperties returned " << join(got) << ", own + unshadowed properties of the linked section are " << join(want));
                ctx.count(linked ? "query:Section.inheritedProperties(linked)" : "query:Section.inheritedProperties(no link)");
            }
            // findRelated: only what every stage guarantees - results satisfy the filter, exclude the section itself, no duplicates
            {
                Flt fl = filter(uni);
                std::vector<nix::Section> rel = sp.first.findRelated(fl.make<nix::Section>());
                std::set<std::string> seen;
                for (auto &r : rel) {
                    const Ent *re = nullptr;
                    for (auto &o : secs) if (o.second->id == r.id()) re = o.second;
                    VCHECK(re != nullptr, "findRelated returned a section that is not in the file");
                    VCHECK(fl.match(*re), "findRelated(" << fl.str() << ") returned " << r.id() << " which does not satisfy the filter");
                    VCHECK(r.id() != sid, "findRelated returned the section itself");
                    VCHECK(seen.insert(r.id()).second, "findRelated returned " << r.id() << " twice");
                }
                ctx.count("query:Section.findRelated");
            }
            // parent
            {
                std::string want = ABSENT;
                for (auto &o : secs) for (auto &c : kidsOf(*o.second, "sections")) if (c.id == sid) want = o.second->id;
                nix::Section p = sp.first.parent();
                std::string got = p ? p.id() : std::string(ABSENT);
                VCHECK(got == want, "Section(" << sid.substr(0, 8) << ")::parent() is " << got << ", the section that lists it as a child is " << want);
            }
        }
    }

    void sourceQueries() {
        std::vector<const Ent *> uni;
        for (auto &s : srcs) uni.push_back(s.second);
        size_t nq = 2 + t.below(6);
        for (size_t q = 0; q < nq && !blocks.empty(); q++) {
            Flt fl = filter(uni);
            bool blockLevel = srcs.empty() || t.chance(25);
            bool unlimited = t.chance(30);
            std::vector<std::string> expect, got;
            std::set<size_t> levels;
            if (blockLevel) {
                auto &b = blocks[t.below(static_cast<uint32_t>(blocks.size()))];
                size_t depth = depthBelow(*b.second, "sources"); // roots are depth 0 => deepest node has depth-1
                size_t limit = unlimited ? std::numeric_limits<size_t>::max() : t.below(static_cast<uint32_t>(depth + 2));
                for (auto &r : kidsOf(*b.second, "sources")) bfs(r, "sources", limit, true, fl, expect, &levels);
                got = idsOf(unlimited ? b.first.findSources(fl.make<nix::Source>()) : b.first.findSources(fl.make<nix::Source>(), limit));
                VCHECK(sorted(expect) == sorted(got), "Block::findSources(" << fl.str() << ", " << (unlimited ? std::string("unlimited") : std::to_string(limit)) << ") returned "
                                                                            << join(got) << ", brute force (roots are depth 0) finds " << join(expect));
                ctx.count("query:Block.findSources");
                if (depth >= 4 && !unlimited && limit >= 1 && limit + 1 < depth && levels.size() >= 2) deep_hit = true;
            } else {
                size_t pickI = t.below(static_cast<uint32_t>(srcs.size()));
                if (t.chance(60)) for (size_t tries = 0; tries < 4 && depthBelow(*srcs[pickI].second, "sources") < 3; tries++) pickI = t.below(static_cast<uint32_t>(srcs.size()));
                auto &sp = srcs[pickI];
                size_t depth = depthBelow(*sp.second, "sources");
                size_t limit = unlimited ? std::numeric_limits<size_t>::max()
                                         : (depth >= 2 && t.chance(50)) ? 1 + t.below(static_cast<uint32_t>(depth - 1)) : t.below(static_cast<uint32_t>(depth + 2));
                bfs(*sp.second, "sources", limit, true, fl, expect, &levels);
                got = idsOf(unlimited ? sp.first.findSources(fl.make<nix::Source>()) : sp.first.findSources(fl.make<nix::Source>(), limit));
                VCHECK(expect == got, "Source::findSources(" << fl.str() << ", " << (unlimited ? std::string("unlimited") : std::to_string(limit)) << ") started at "
                                                             << sp.second->id.substr(0, 8) << " returned " << join(got) << ", breadth-first brute force (start at depth 0) finds " << join(expect));
                ctx.count("query:Source.findSources");
                if (depth >= 3 && !unlimited && limit >= 1 && limit < depth && levels.size() >= 2) deep_hit = true;
            }
        }
        size_t ns = std::min<size_t>(srcs.size(), 1 + t.below(4));
        for (size_t k = 0; k < ns; k++) {
            size_t idx = t.below(static_cast<uint32_t>(srcs.size()));
            auto &sp = srcs[idx];
            const std::string sid = sp.second->id;
            const Ent *blk = srcBlock[idx];
            std::map<std::string, std::vector<std::string>> exp;
            for (auto &kk : blk->kids)
                for (auto &e : kk.second)
                    if (e.kind == "array" || e.kind == "tag" || e.kind == "mtag")
                        for (auto &l : e.lists) if (l.first == "sources") for (auto &x : l.second) if (x == sid) exp[e.kind].push_back(e.id);
            auto cmp = [&](const char *what, const std::vector<std::string> &got, const std::vector<std::string> &want) {
                VCHECK(sorted(got) == sorted(want), "Source(" << sid.substr(0, 8) << ")::" << what << " returned " << join(got) << ", the entities of the block that list it as a source are " << join(want));
                ctx.count(std::string("query:Source.") + what);
            };
            cmp("referringDataArrays", idsOf(sp.first.referringDataArrays()), exp["array"]);
            cmp("referringTags", idsOf(sp.first.referringTags()), exp["tag"]);
            cmp("referringMultiTags", idsOf(sp.first.referringMultiTags()), exp["mtag"]);
            std::string want = ABSENT;
            for (size_t o = 0; o < srcs.size(); o++)
                if (srcBlock[o] == blk) for (auto &c : kidsOf(*srcs[o].second, "sources")) if (c.id == sid) want = srcs[o].second->id;
            nix::Source p = sp.first.parentSource();
            std::string got = p ? p.id() : std::string(ABSENT);
            VCHECK(got == want, "Source(" << sid.substr(0, 8) << ")::parentSource() is " << got << ", the source that lists it as a child is " << want);
            ctx.count("query:Source.parentSource");
        }
    }
};

static void body(Tape &t, Ctx &ctx) {
    Case c{t, ctx};
    c.f = nix::File::open(ctx.path("c20.nix"), nix::FileMode::Overwrite);
    ctx.trace << "C20:";
    c.build();
    c.deletions_();
    if (t.chance(25)) {
        c.f.close();
        c.f = nix::File::open(ctx.path("c20.nix"), t.flip() ? nix::FileMode::ReadOnly : nix::FileMode::ReadWrite);
        ctx.trace << " reopen";
    }
    c.index();
    size_t sdepth = depthBelow(c.snap, "sections"), maxsrc = 0;
    for (auto &b : c.blocks) maxsrc = std::max(maxsrc, depthBelow(*b.second, "sources"));
    ctx.trace << " sections=" << c.secs.size() << " depth=" << sdepth << " sources=" << c.srcs.size() << " depth=" << maxsrc << " deletions=" << c.deletions;
    c.sectionQueries();
    c.sourceQueries();
    c.f.close();
    ctx.nontrivial = c.deep_hit && c.deletions >= 1;
    if (c.deep_hit) ctx.count("deep_limited_multi_level_query");
    // the decoded case is characterised by the tape-dependent shape; add a digest of the tree to the trace for distinctness
    std::function<std::string(const Ent &)> shape = [&](const Ent &e) {
        std::string r = e.kind.substr(0, 2) + ":" + e.name + "(";
        for (auto &l : e.links) r += l.second == ABSENT ? "-" : "+";
        for (auto &l : e.lists) r += std::to_string(l.second.size());
        for (auto &k : e.kids) for (auto &x : k.second) if (x.kind != "dim") r += shape(x);
        return r + ")";
    };
    ctx.trace << " shape#" << std::hex << fnv1a(shape(c.snap)) << std::dec;
}

} // namespace c20
