// axis.hpp - reference model of a dimension's axis and brute-force position -> index search,
// written from the property statements (C05, C06, C07, C17), not from the implementation.
#pragma once
#include "common.hpp"
#include "nixutil.hpp"

#include <boost/optional.hpp>
#include <cfloat>
#include <limits>

namespace vf {

enum class AK { Sampled, Range, Set, Frame };

inline const char *akName(AK k) {
    switch (k) {
    case AK::Sampled: return "sampled";
    case AK::Range: return "range";
    case AK::Set: return "set";
    default: return "frame";
    }
}

inline const char *pmName(nix::PositionMatch m) {
    switch (m) {
    case nix::PositionMatch::Equal: return "Equal";
    case nix::PositionMatch::Less: return "Less";
    case nix::PositionMatch::Greater: return "Greater";
    case nix::PositionMatch::GreaterOrEqual: return "GreaterOrEqual";
    default: return "LessOrEqual";
    }
}

static const nix::PositionMatch ALL_PM[5] = {nix::PositionMatch::Equal, nix::PositionMatch::Less, nix::PositionMatch::Greater,
                                             nix::PositionMatch::GreaterOrEqual, nix::PositionMatch::LessOrEqual};

struct Axis {
    AK kind = AK::Set;
    double interval = 1.0, offset = 0.0; // sampled
    std::vector<double> ticks;           // range
    uint64_t count = 0;                  // set: number of labels, frame: number of rows; 0 = unbounded
    std::string unit;                    // "" = none

    bool bounded() const { return kind == AK::Range || ((kind == AK::Set || kind == AK::Frame) && count > 0); }
    uint64_t n() const { return kind == AK::Range ? ticks.size() : count; }
    // the coordinate of index i, computed by the expression the library documents
    double coord(uint64_t i) const {
        switch (kind) {
        case AK::Sampled: return static_cast<double>(i) * interval + offset;
        case AK::Range: return ticks[i];
        default: return static_cast<double>(i);
        }
    }
    std::string describe() const {
        std::ostringstream os;
        os << akName(kind);
        if (kind == AK::Sampled) os << "(interval=" << dstr(interval) << ",offset=" << dstr(offset) << ")";
        else if (kind == AK::Range) {
            os << "(ticks=";
            for (size_t i = 0; i < ticks.size(); i++) os << (i ? "," : "") << dstr(ticks[i]);
            os << ")";
        } else os << "(count=" << count << ")";
        if (!unit.empty()) os << "[" << unit << "]";
        return os.str();
    }
};

// k = largest index with coord(k) <= p (or -1), found by exact comparisons with the axis.
// For unbounded axes the search is a window of +-W around the real-number estimate; the
// generators keep the axis strictly increasing and well separated there (ulp(x) < interval/8),
// `ok` is false if the window cannot decide (then the case is outside the generated domain).
inline long long lastNotAfter(const Axis &a, double p, bool &ok, uint64_t limit = 0) {
    ok = true;
    if (std::isnan(p)) {
        ok = false;
        return -1;
    }
    if (a.bounded() || limit > 0) {
        uint64_t n = a.bounded() ? a.n() : limit;
        long long k = -1;
        for (uint64_t i = 0; i < n; i++) {
            if (a.coord(i) <= p) k = static_cast<long long>(i);
        }
        return k;
    }
    const long long W = 16;
    double est = a.kind == AK::Sampled ? (p - a.offset) / a.interval : p;
    if (!(est < 4.0e15)) {
        ok = false;
        return -1;
    }
    long long c = est < 0 ? 0 : static_cast<long long>(std::floor(est));
    long long lo = std::max<long long>(0, c - W), hi = c + W;
    if (a.coord(static_cast<uint64_t>(lo)) > p) {
        if (lo == 0) return -1;
        ok = false;
        return -1;
    }
    long long k = lo;
    for (long long i = lo; i <= hi; i++) {
        if (a.coord(static_cast<uint64_t>(i)) <= p) k = i;
    }
    if (k == hi) ok = false; // could not bracket from above
    // strictness of the axis in the window (generator invariant)
    for (long long i = lo; i < hi; i++) {
        if (!(a.coord(static_cast<uint64_t>(i)) < a.coord(static_cast<uint64_t>(i + 1)))) ok = false;
    }
    return k;
}

// the definition of C07
inline boost::optional<uint64_t> refIndex(const Axis &a, double p, nix::PositionMatch m, bool &ok, uint64_t limit = 0) {
    boost::optional<uint64_t> r;
    long long k = lastNotAfter(a, p, ok, limit);
    if (!ok) return r;
    bool eq = k >= 0 && a.coord(static_cast<uint64_t>(k)) == p;
    long long res = -1;
    switch (m) {
    case nix::PositionMatch::LessOrEqual: res = k; break;
    case nix::PositionMatch::Less: res = eq ? k - 1 : k; break;
    case nix::PositionMatch::GreaterOrEqual: res = eq ? k : k + 1; break;
    case nix::PositionMatch::Greater: res = k + 1; break;
    case nix::PositionMatch::Equal: res = eq ? k : -1; break;
    }
    if (res < 0) return r;
    if (a.bounded() && static_cast<uint64_t>(res) >= a.n()) return r;
    r = static_cast<uint64_t>(res);
    return r;
}

inline boost::optional<std::pair<uint64_t, uint64_t>> refRange(const Axis &a, double s, double e, nix::RangeMatch rm, bool &ok,
                                                                uint64_t limit = 0) {
    boost::optional<std::pair<uint64_t, uint64_t>> r;
    ok = true;
    if (std::isnan(s) || std::isnan(e)) {
        ok = false;
        return r;
    }
    if (s > e) return r;
    bool ok1, ok2;
    auto si = refIndex(a, s, nix::PositionMatch::GreaterOrEqual, ok1, limit);
    auto ei = refIndex(a, e, rm == nix::RangeMatch::Inclusive ? nix::PositionMatch::LessOrEqual : nix::PositionMatch::Less, ok2, limit);
    ok = ok1 && ok2;
    if (!ok) return r;
    if (si && ei && *si <= *ei) r = std::make_pair(*si, *ei);
    return r;
}

template <typename T> inline std::string optStr(const boost::optional<T> &o) {
    if (!o) return "none";
    std::ostringstream os;
    os << *o;
    return os.str();
}
template <typename A, typename B> inline std::string optStr(const boost::optional<std::pair<A, B>> &o) {
    if (!o) return "none";
    std::ostringstream os;
    os << "(" << o->first << "," << o->second << ")";
    return os.str();
}

inline double next_up(double x) { return std::nextafter(x, std::numeric_limits<double>::infinity()); }
inline double next_down(double x) { return std::nextafter(x, -std::numeric_limits<double>::infinity()); }

// interval / offset generators shared by C05, C06, C07, C17
inline double genInterval(Tape &t) {
    static const double dec[] = {0.1, 0.01, 0.001, 0.2, 1.0 / 3.0, 1.0 / 7.0, 0.3, 0.7, 1e-4, 0.05, 2.5, 1.1};
    static const double bin[] = {1.0, 0.5, 0.25, 2.0, 0.125, 1024.0, 1.0 / 1024.0, 3.0};
    switch (t.pick({5, 3, 3})) {
    case 0: return dec[t.below(sizeof dec / sizeof dec[0])];
    case 1: return bin[t.below(sizeof bin / sizeof bin[0])];
    default: {
        // log-uniform in [1e-6, 1e6]
        double e = -6.0 + 12.0 * t.unit();
        return std::pow(10.0, e) * (1.0 + t.unit());
    }
    }
}

inline double genOffset(Tape &t, double interval, double max_index) {
    double off = 0.0;
    switch (t.pick({4, 3, 2, 2, 2})) {
    case 0: off = 0.0; break;
    case 1: off = static_cast<double>(t.range(-100, 100)) * interval; break;
    case 2: off = (t.unit() - 0.5) * interval; break;
    case 3: off = (t.unit() - 0.5) * 2000.0; break;
    default: off = static_cast<double>(t.range(-50, 50)) * 0.1; break;
    }
    // keep coordinates well separated up to max_index: ulp(x_max) < interval / 8
    double xmax = std::fabs(off) + max_index * interval;
    double ulp = next_up(xmax) - xmax;
    if (!(ulp < interval / 8.0)) off = 0.0;
    return off;
}

} // namespace vf
