// nixutil.hpp - helpers around the nix API and raw HDF5 access shared by the harnesses
#pragma once
#include <nix.hpp>
#include <nix/util/dataAccess.hpp>
#include <nix/util/util.hpp>
#include <hdf5.h>

#include <fstream>
#include <sstream>
#include <string>
#include <vector>

namespace vf {

inline std::string slurp(const std::string &path) {
    std::ifstream in(path, std::ios::binary);
    std::ostringstream os;
    os << in.rdbuf();
    return os.str();
}

inline void spit(const std::string &path, const std::string &bytes) {
    std::ofstream o(path, std::ios::binary | std::ios::trunc);
    o.write(bytes.data(), static_cast<std::streamsize>(bytes.size()));
}

inline bool file_exists(const std::string &path) {
    std::ifstream in(path);
    return static_cast<bool>(in);
}

// rewrite an integer array attribute through the raw HDF5 C API (used to inject header
// versions the public API cannot produce)
inline bool h5_write_int_attr(const std::string &path, const char *obj, const char *attr, const int *v, size_t n) {
    hid_t f = H5Fopen(path.c_str(), H5F_ACC_RDWR, H5P_DEFAULT);
    if (f < 0) return false;
    bool ok = false;
    hid_t o = H5Oopen(f, obj, H5P_DEFAULT);
    if (o >= 0) {
        if (H5Aexists(o, attr) > 0) H5Adelete(o, attr);
        hsize_t dims[1] = {n};
        hid_t sp = H5Screate_simple(1, dims, nullptr);
        hid_t a = H5Acreate2(o, attr, H5T_STD_I32LE, sp, H5P_DEFAULT, H5P_DEFAULT);
        if (a >= 0) {
            ok = H5Awrite(a, H5T_NATIVE_INT, v) >= 0;
            H5Aclose(a);
        }
        H5Sclose(sp);
        H5Oclose(o);
    }
    H5Fclose(f);
    return ok;
}

} // namespace vf
