// h_access - C05 C06 C07 C17 C18: position/index arithmetic, tagged retrieval, slices, views, units
#include "axis.hpp"

using namespace vf;

// one file per worker process, re-parameterised through the public setters
struct DimFixture {
    nix::File file;
    nix::Block block;
    nix::DataArray array;
    nix::SampledDimension sd;
    nix::RangeDimension rd;
    nix::SetDimension setd;
    nix::DataFrame frame;
    nix::DataFrameDimension fd;
    bool ready = false;
    void build(const std::string &path) {
        ready = false;
        if (file) {
            try { file.close(); } catch (...) {}
        }
        file = nix::File::open(path, nix::FileMode::Overwrite);
        block = file.createBlock("b", "t");
        array = block.createDataArray("a", "t", nix::DataType::Double, nix::NDSize({2, 2, 2, 2}));
        sd = array.appendSampledDimension(1.0);
        rd = array.appendRangeDimension(std::vector<double>{0.0, 1.0});
        setd = array.appendSetDimension();
        std::vector<nix::Column> cols = {{"c", "", nix::DataType::Double}};
        frame = block.createDataFrame("f", "t", cols);
        fd = array.appendDataFrameDimension(frame);
        ready = true;
    }
};

#include "c07.hpp"
#include "c05.hpp"
#include "c06.hpp"
#include "c17.hpp"
#include "c18.hpp"

int main(int argc, char **argv) {
    if (argc < 3) {
        fprintf(stderr, "usage: h_access <c05|c06|c07|c17|c18> run|replay <tape> [--out f] [--work d]\n");
        return 2;
    }
    std::string prop = argv[1];
    Options opt = parse_args(argc, argv, 2);
    int rc = 2;
    if (prop == "c07") rc = drive("C07", opt, c07::body);
    if (prop == "c06") rc = drive("C06", opt, c06::body);
    if (prop == "c17") rc = drive("C17", opt, c17::body);
    if (prop == "c18") rc = drive("C18", opt, c18::body);
    if (prop == "c05") rc = drive("C05", opt, c05::body);
    if (opt.own_work) rm_rf(opt.work);
    // leave without exit handlers: after a failed case entities may still be open, and HDF5's own
    // termination routine is not part of what is checked
    fflush(nullptr);
    _exit(rc);
}
