// c06.hpp - C06: MultiTag retrieval returns exactly region i for position index i; a list retrieval equals
// the list of the single retrievals; indexed / tagged / untagged features.
#pragma once
#include "c05.hpp"

namespace c06 {

using namespace vf;
using namespace rg;
using c05::Req;
using c05::Outcome;

static nix::DataArray storeMatrix(nix::Block &b, const std::string &name, const std::vector<std::vector<double>> &rows, bool oneD) {
    size_t N = rows.size(), D = rows.empty() ? 0 : rows[0].size();
    nix::NDSize shape = oneD ? nix::NDSize({static_cast<nix::ndsize_t>(N)}) : nix::NDSize({static_cast<nix::ndsize_t>(N), static_cast<nix::ndsize_t>(D)});
    nix::DataArray a = b.createDataArray(name, "t", nix::DataType::Double, shape);
    std::vector<double> flat;
    for (auto &r : rows) for (size_t d = 0; d < (oneD ? 1 : D); d++) flat.push_back(r[d]);
    a.setData(nix::DataType::Double, flat.data(), shape, nix::NDSize(shape.size(), 0));
    a.appendSetDimension();
    if (!oneD) a.appendSetDimension();
    return a;
}

static void body(Tape &t, Ctx &ctx) {
    nix::File f = nix::File::open(ctx.path("c06.nix"), nix::FileMode::Overwrite);
    nix::Block b = f.createBlock("b", "t");
    bool wantUnits = t.chance(30);
    ArraySpec s = genArray(t, 1, 3, 9, wantUnits);
    nix::DataArray a = buildArray(b, "data", s);
    nix::RangeMatch mode = t.flip() ? nix::RangeMatch::Exclusive : nix::RangeMatch::Inclusive;
    size_t N = 1 + t.below(8);
    bool oneD = s.rank() == 1;
    size_t D = oneD ? 1 : (t.chance(55) ? s.rank() : 1 + t.below(static_cast<uint32_t>(s.rank() + 1)));
    bool hasExt = t.chance(65);
    size_t nspec = std::min(D, s.rank());
    std::vector<c05::UnitChoice> units;
    std::vector<Req> rows;
    std::vector<std::vector<double>> pm, em;
    ctx.trace << "C06 " << s.describe() << " positions " << N << (oneD ? "" : "x" + std::to_string(D)) << (hasExt ? " with extents" : " no extents") << " mode=" << c05::modeName(mode);
    for (size_t i = 0; i < N; i++) {
        Req r = c05::genReq(t, s, D, hasExt, mode, wantUnits ? 1 : 0, false, &units);
        // a multi tag always applies the given mode; without extents every entry is a point
        for (auto &dq : r.dims) dq.mode = mode;
        for (auto &dq : r.lo) dq.mode = mode;
        for (auto &dq : r.hi) dq.mode = mode;
        ctx.trace << " row" << i << ":" << r.trace;
        pm.push_back(r.pos);
        em.push_back(r.ext);
        rows.push_back(r);
    }
    nix::DataArray pa = storeMatrix(b, "positions", pm, oneD);
    nix::MultiTag mt = b.createMultiTag("mtag", "t", pa);
    if (hasExt) mt.extents(storeMatrix(b, "extents", em, oneD));
    bool anyUnit = false;
    std::vector<std::string> us;
    for (size_t d = 0; d < nspec; d++) { us.push_back(d < units.size() ? units[d].unit : "none"); if (us.back() != "none") anyUnit = true; }
    if (anyUnit) mt.units(us);
    mt.addReference(a);

    std::vector<Expect> ex(N);
    std::vector<bool> usable(N, true);
    for (size_t i = 0; i < N; i++) {
        ex[i] = refRegion(s, rows[i].dims);
        if (!c05::stable(s, rows[i], ex[i])) usable[i] = false;
    }
    bool kfEligible = mode == nix::RangeMatch::Exclusive && hasExt && nspec < s.rank();

    // ---- single retrievals
    size_t nq = 1 + t.below(4);
    bool nontrivial = false;
    for (size_t q = 0; q < nq; q++) {
        nix::ndsize_t i = t.chance(85) ? t.below(static_cast<uint32_t>(N)) : N + t.below(3);
        nix::DataView *view = nullptr;
        std::unique_ptr<nix::DataView> hold;
        Outcome o;
        std::string entry;
        switch (t.pick({4, 2, 2})) {
        case 0: entry = "util::taggedData(mtag, i, array, mode)"; o = c05::callView([&] { return nix::util::taggedData(mt, i, a, mode); }, view, hold); break;
        case 1: entry = "util::taggedData(mtag, i, 0, mode)"; o = c05::callView([&] { return nix::util::taggedData(mt, i, static_cast<nix::ndsize_t>(0), mode); }, view, hold); break;
        default:
            if (mode == nix::RangeMatch::Exclusive) { entry = "MultiTag::taggedData(i, 0) [default mode]"; o = c05::callView([&] { return mt.taggedData(static_cast<size_t>(i), static_cast<size_t>(0)); }, view, hold); }
            else { entry = "util::retrieveData(mtag, i, array) [default mode]"; o = c05::callView([&] { return nix::util::retrieveData(mt, i, a); }, view, hold); }
            break;
        }
        entry += " i=" + std::to_string(i);
        ctx.count(i < N ? "single:index_in_range" : "single:index_beyond_positions");
        if (i >= N) {
            VCHECK(!o.got, entry << ": index beyond the " << N << " positions but data was returned");
            VCHECK(o.oob, entry << ": index beyond the positions must raise nix::OutOfBounds, got " << o.extype << ": " << o.what);
            nontrivial = true;
            continue;
        }
        if (!usable[i]) { ctx.count("excluded:scaled_request_sensitive_to_factor_rounding"); continue; }
        c05::judge(entry, s, ex[i], o, view, false, kfEligible, nspec, ctx);
        if (!ex[i].error) {
            nix::NDSize off, cnt;
            nix::util::getOffsetAndCount(mt, a, i, off, cnt, mode);
            bool same = off.size() == ex[i].off.size() && cnt.size() == ex[i].cnt.size();
            for (size_t d = 0; same && d < ex[i].off.size(); d++) same = off[d] == ex[i].off[d] && cnt[d] == ex[i].cnt[d];
            VCHECK(same, "getOffsetAndCount(mtag, array, " << i << ") gives offset " << ndstr(off) << " count " << ndstr(cnt) << ", the statement says " << ex[i].str());
        }
        if (ex[i].error || (N >= 2 && i > 0) || !hasExt) nontrivial = true;
    }
    // ---- list retrieval == list of single retrievals
    {
        std::vector<nix::ndsize_t> idx;
        std::string lname;
        switch (t.pick({2, 3, 2})) {
        case 0: lname = "all(empty list)"; break;
        case 1: { size_t k = 1 + t.below(5); for (size_t j = 0; j < k; j++) idx.push_back(t.below(static_cast<uint32_t>(N))); lname = "list"; break; }
        default: for (size_t j = N; j-- > 0;) idx.push_back(j); if (t.flip()) idx.push_back(0); lname = "reversed"; break;
        }
        std::vector<nix::ndsize_t> eff = idx;
        if (eff.empty()) for (size_t j = 0; j < N; j++) eff.push_back(j);
        bool allUsable = true, anyErr = false;
        for (auto j : eff) { if (!usable[j]) allUsable = false; if (ex[j].error) anyErr = true; }
        if (allUsable) {
            std::vector<nix::DataView> views;
            Outcome o;
            try {
                std::vector<nix::ndsize_t> arg = idx;
                views = t.flip() ? nix::util::taggedData(mt, arg, a, mode) : nix::util::taggedData(mt, arg, static_cast<nix::ndsize_t>(0), mode);
                o.got = true;
            } catch (const nix::OutOfBounds &e) { o.oob = true; o.extype = "nix::OutOfBounds"; o.what = e.what(); } catch (const std::exception &e) { o.extype = typeid(e).name(); o.what = e.what(); }
            std::string entry = "util::taggedData(mtag, " + lname + ", array, mode)";
            ctx.count("list:" + lname);
            if (anyErr) {
                VCHECK(!o.got, entry << ": one of the requested regions is empty or outside the data, but the list retrieval returned " << views.size() << " views");
                VCHECK(o.oob, entry << ": expected nix::OutOfBounds, got " << o.extype << ": " << o.what);
            } else {
                VCHECK(o.got, entry << ": every single retrieval is valid but the list retrieval threw " << o.extype << ": " << o.what);
                VCHECK(views.size() == eff.size(), entry << ": " << views.size() << " views for " << eff.size() << " indices");
                for (size_t k = 0; k < eff.size(); k++) {
                    Outcome ok;
                    ok.got = true;
                    c05::judge(entry + " element " + std::to_string(k) + " (position " + std::to_string(eff[k]) + ")", s, ex[eff[k]], ok, &views[k], false, kfEligible, nspec, ctx);
                }
            }
        }
    }
    // ---- features
    if (!anyUnit && t.chance(50)) {
        nix::LinkType lt = static_cast<nix::LinkType>(t.below(3));
        // 1-D positions tag 1-D data (the statement's domain): a tagged feature of 1-D positions is 1-D as well
        ArraySpec fs = genArray(t, 1, (oneD && lt == nix::LinkType::Tagged) ? 1 : 3, 6, false);
        // an indexed feature usually has one slice per position
        if (t.chance(60)) fs.ext[0] = N, fs.dims[0].axis = Axis(), fs.dims[0].axis.kind = AK::Set, fs.dims[0].axis.count = 0, fs.dims[0].withLabels = false;
        nix::DataArray fa = buildArray(b, "feat", fs);
        nix::Feature ft = mt.createFeature(fa, lt);
        nix::ndsize_t i = t.chance(85) ? t.below(static_cast<uint32_t>(N)) : N + t.below(2);
        size_t fspec = std::min(D, fs.rank());
        Expect fe;
        bool beyond = i >= N;
        if (!beyond) {
            if (lt == nix::LinkType::Tagged) {
                std::vector<DimReq> fr(fspec);
                for (size_t d = 0; d < fspec; d++) {
                    fr[d].specified = true;
                    fr[d].start = rows[i].pos[d];
                    fr[d].end = rows[i].pos[d] + (hasExt ? rows[i].ext[d] : 0.0);
                    fr[d].point = !hasExt || rows[i].ext[d] == 0.0;
                    fr[d].mode = mode;
                }
                fe = refRegion(fs, fr);
            } else if (lt == nix::LinkType::Indexed) {
                if (i >= fs.ext[0]) { fe.error = true; fe.why = "slice index beyond the first dimension of the feature"; }
                else for (size_t d = 0; d < fs.rank(); d++) { fe.off.push_back(d == 0 ? i : 0); fe.cnt.push_back(d == 0 ? 1 : fs.ext[d]); }
            } else {
                for (size_t d = 0; d < fs.rank(); d++) { fe.off.push_back(0); fe.cnt.push_back(fs.ext[d]); }
            }
        }
        nix::DataView *fv = nullptr;
        std::unique_ptr<nix::DataView> fh;
        Outcome fo = t.flip() ? c05::callView([&] { return nix::util::featureData(mt, i, static_cast<nix::ndsize_t>(0), mode); }, fv, fh)
                              : c05::callView([&] { return nix::util::featureData(mt, i, ft, mode); }, fv, fh);
        std::string fentry = std::string("featureData(mtag, ") + std::to_string(i) + ")[" + nix::link_type_to_string(lt) + "]";
        ctx.trace << " feature " << fs.describe() << " " << nix::link_type_to_string(lt) << " i=" << i;
        ctx.count("feature:" + nix::link_type_to_string(lt));
        if (beyond) {
            VCHECK(!fo.got, fentry << ": index beyond the positions but feature data was returned");
            VCHECK(fo.oob, fentry << ": index beyond the positions must raise nix::OutOfBounds, got " << fo.extype << ": " << fo.what);
        } else {
            c05::judge(fentry, fs, fe, fo, fv, false, lt == nix::LinkType::Tagged && mode == nix::RangeMatch::Exclusive && hasExt && fspec < fs.rank(), fspec, ctx);
        }
        // list of indices: equals the list of the single feature retrievals
        if (t.chance(60)) {
            std::vector<nix::ndsize_t> idx;
            size_t k = t.flip() ? 0 : 2 + t.below(4);
            for (size_t j = 0; j < k; j++) idx.push_back(t.below(static_cast<uint32_t>(N)));
            std::vector<nix::ndsize_t> eff = idx;
            if (eff.empty()) for (size_t j = 0; j < N; j++) eff.push_back(j);
            std::vector<Expect> fex;
            bool anyErr = false;
            for (auto j : eff) {
                Expect x;
                if (lt == nix::LinkType::Tagged) {
                    std::vector<DimReq> fr(fspec);
                    for (size_t d = 0; d < fspec; d++) {
                        fr[d].specified = true;
                        fr[d].start = rows[j].pos[d];
                        fr[d].end = rows[j].pos[d] + (hasExt ? rows[j].ext[d] : 0.0);
                        fr[d].point = !hasExt || rows[j].ext[d] == 0.0;
                        fr[d].mode = mode;
                    }
                    x = refRegion(fs, fr);
                } else if (lt == nix::LinkType::Indexed) {
                    if (j >= fs.ext[0]) { x.error = true; x.why = "slice index beyond the first dimension of the feature"; }
                    else for (size_t d = 0; d < fs.rank(); d++) { x.off.push_back(d == 0 ? j : 0); x.cnt.push_back(d == 0 ? 1 : fs.ext[d]); }
                } else {
                    for (size_t d = 0; d < fs.rank(); d++) { x.off.push_back(0); x.cnt.push_back(fs.ext[d]); }
                }
                if (x.error) anyErr = true;
                fex.push_back(x);
            }
            std::vector<nix::DataView> views;
            Outcome lo;
            try {
                views = t.flip() ? nix::util::featureData(mt, idx, static_cast<nix::ndsize_t>(0), mode) : nix::util::featureData(mt, idx, ft, mode);
                lo.got = true;
            } catch (const nix::OutOfBounds &e) { lo.oob = true; lo.extype = "nix::OutOfBounds"; lo.what = e.what(); } catch (const std::exception &e) { lo.extype = typeid(e).name(); lo.what = e.what(); }
            std::string lentry = std::string("featureData(mtag, list of ") + std::to_string(eff.size()) + ")[" + nix::link_type_to_string(lt) + "]";
            ctx.count("feature_list:" + nix::link_type_to_string(lt));
            if (anyErr) {
                VCHECK(!lo.got, lentry << ": one of the requested feature regions is invalid but " << views.size() << " views were returned");
                VCHECK(lo.oob, lentry << ": expected nix::OutOfBounds, got " << lo.extype << ": " << lo.what);
            } else {
                VCHECK(lo.got, lentry << ": every single retrieval is valid but the list retrieval threw " << lo.extype << ": " << lo.what);
                VCHECK(views.size() == eff.size(), lentry << ": " << views.size() << " views for " << eff.size() << " indices");
                for (size_t q = 0; q < eff.size(); q++) {
                    Outcome ok;
                    ok.got = true;
                    c05::judge(lentry + " element " + std::to_string(q) + " (position " + std::to_string(eff[q]) + ")", fs, fex[q], ok, &views[q], false,
                               lt == nix::LinkType::Tagged && mode == nix::RangeMatch::Exclusive && hasExt && fspec < fs.rank(), fspec, ctx);
                }
            }
        }
    }
    ctx.nontrivial = nontrivial;
    f.close();
}

} // namespace c06
