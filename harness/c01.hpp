// c01.hpp - DataArray data round trip against an in-memory n-d array model
#pragma once
#include <nix/hydra/multiArray.hpp>

namespace c01 {

using nix::DataType;
using nix::NDSize;

// ---------------------------------------------------------------------------------------
// element traits: generation, equality, printing
template <typename T> struct El {
    static T gen(Tape &t) {
        if (std::is_floating_point<T>::value) {
            switch (t.pick({3, 2, 2, 1, 1, 1, 1, 3})) {
            case 0: return static_cast<T>(0);
            case 1: return static_cast<T>(1);
            case 2: return static_cast<T>(-1);
            case 3: return std::numeric_limits<T>::max();
            case 4: return std::numeric_limits<T>::lowest();
            case 5: return std::numeric_limits<T>::quiet_NaN();
            case 6: return t.flip() ? std::numeric_limits<T>::infinity() : -std::numeric_limits<T>::infinity();
            default: return static_cast<T>((t.unit() - 0.5) * 2000.0);
            }
        }
        switch (t.pick({3, 2, 2, 2, 2, 4})) {
        case 0: return static_cast<T>(0);
        case 1: return static_cast<T>(1);
        case 2: return std::numeric_limits<T>::max();
        case 3: return std::numeric_limits<T>::lowest();
        case 4: return static_cast<T>(-1);
        default: return static_cast<T>(t.word64());
        }
    }
    // small integer-valued element (exact under any polynomial evaluation order)
    static T small(Tape &t) { return static_cast<T>(static_cast<int>(t.below(std::is_signed<T>::value ? 21 : 11)) - (std::is_signed<T>::value ? 10 : 0)); }
    static bool eq(const T &a, const T &b) {
        if (std::is_floating_point<T>::value) {
            if (a != a || b != b) return (a != a) && (b != b);
            return memcmp(&a, &b, sizeof(T)) == 0;
        }
        return a == b;
    }
    static std::string str(const T &v) {
        std::ostringstream os;
        if (std::is_floating_point<T>::value) os << dstr(static_cast<double>(v));
        else if (sizeof(T) == 1) os << static_cast<int>(v);
        else os << v;
        return os.str();
    }
    static T zero() { return static_cast<T>(0); }
    static double toDouble(const T &v) { return static_cast<double>(v); }
    static const bool numeric = true;
};

template <> struct El<bool> {
    static bool gen(Tape &t) { return t.flip(); }
    static bool small(Tape &t) { return t.flip(); }
    static bool eq(bool a, bool b) { return a == b; }
    static std::string str(bool v) { return v ? "true" : "false"; }
    static bool zero() { return false; }
    static double toDouble(bool v) { return v ? 1.0 : 0.0; }
    static const bool numeric = false;
};

template <> struct El<std::string> {
    static std::string gen(Tape &t) {
        static const char *pool[] = {"", "a", " ", "a b", "\xc3\xa4\xc3\xb6\xc3\xbc", "\xe2\x82\xac 5", "line\nbreak", "tab\there", "0", "null",
                                     "a/b", "..", "\xf0\x9f\x98\x80", "  lead", "trail  "};
        switch (t.pick({6, 3, 1})) {
        case 0: return pool[t.below(sizeof pool / sizeof pool[0])];
        case 1: {
            size_t n = t.below(41);
            std::string s;
            for (size_t i = 0; i < n; i++) s += static_cast<char>(1 + t.below(254)); // any byte but NUL
            return s;
        }
        default: return std::string(200 + t.below(2000), 'x');
        }
    }
    static std::string small(Tape &t) { return gen(t); }
    static bool eq(const std::string &a, const std::string &b) { return a == b; }
    static std::string str(const std::string &v) { return show(v.size() > 24 ? v.substr(0, 24) + "..." : v); }
    static std::string zero() { return std::string(); }
    static double toDouble(const std::string &) { return 0.0; }
    static const bool numeric = false;
};

// ---------------------------------------------------------------------------------------
// the model: row-major n-d array
template <typename T> struct Model {
    std::vector<uint64_t> ext;
    std::vector<T> data;
    uint64_t nelms() const {
        uint64_t n = 1;
        for (uint64_t e : ext) n *= e;
        return n;
    }
    static uint64_t lin(const std::vector<uint64_t> &ext, const std::vector<uint64_t> &idx) {
        uint64_t l = 0;
        for (size_t d = 0; d < ext.size(); d++) l = l * ext[d] + idx[d];
        return l;
    }
    // iterate over a block
    template <typename F> static void forBlock(const std::vector<uint64_t> &off, const std::vector<uint64_t> &cnt, F f) {
        uint64_t n = 1;
        for (uint64_t c : cnt) n *= c;
        if (n == 0) return;
        std::vector<uint64_t> idx(off.size(), 0);
        for (uint64_t k = 0; k < n; k++) {
            std::vector<uint64_t> abs(off.size());
            for (size_t d = 0; d < off.size(); d++) abs[d] = off[d] + idx[d];
            f(abs, k);
            for (size_t d = off.size(); d-- > 0;) {
                if (++idx[d] < cnt[d]) break;
                idx[d] = 0;
            }
        }
    }
    void resize(const std::vector<uint64_t> &ne) {
        Model<T> m;
        m.ext = ne;
        m.data.assign(m.nelms(), El<T>::zero());
        std::vector<uint64_t> off(ne.size(), 0), cnt(ne.size());
        for (size_t d = 0; d < ne.size(); d++) cnt[d] = std::min(ne[d], ext[d]);
        forBlock(off, cnt, [&](const std::vector<uint64_t> &abs, uint64_t) { m.data[lin(ne, abs)] = data[lin(ext, abs)]; });
        *this = m;
    }
    void write(const std::vector<uint64_t> &off, const std::vector<uint64_t> &cnt, const std::vector<T> &v) {
        forBlock(off, cnt, [&](const std::vector<uint64_t> &abs, uint64_t k) { data[lin(ext, abs)] = v[k]; });
    }
    std::vector<T> read(const std::vector<uint64_t> &off, const std::vector<uint64_t> &cnt) const {
        uint64_t n = 1;
        for (uint64_t c : cnt) n *= c;
        std::vector<T> v(n);
        forBlock(off, cnt, [&](const std::vector<uint64_t> &abs, uint64_t k) { v[k] = data[lin(ext, abs)]; });
        return v;
    }
};

static NDSize nd(const std::vector<uint64_t> &v) {
    NDSize s(v.size());
    for (size_t i = 0; i < v.size(); i++) s[i] = v[i];
    return s;
}
static std::string vs(const std::vector<uint64_t> &v) {
    std::string s = "{";
    for (size_t i = 0; i < v.size(); i++) s += (i ? "," : "") + std::to_string(v[i]);
    return s + "}";
}

// std::vector<bool> has no contiguous storage: buffers of bool are plain arrays
// Read buffers are pre-filled with a sentinel that is neither zero nor empty: an element the library does
// not write (a never-written region that HDF5 does not fill, say) must not pass for "reads as zero".
template <typename T> struct Sentinel { static T value() { return static_cast<T>(77); } };
template <> struct Sentinel<std::string> { static std::string value() { return "~never written by the read~"; } };
template <> struct Sentinel<bool> { static bool value() { return true; } };

template <typename T> struct Buf {
    std::vector<T> v;
    explicit Buf(size_t n) : v(n, Sentinel<T>::value()) {}
    explicit Buf(const std::vector<T> &o) : v(o) {}
    T *data() { return v.data(); }
    const T *data() const { return v.data(); }
    T get(size_t i) const { return v[i]; }
    size_t size() const { return v.size(); }
};
template <> struct Buf<bool> {
    std::unique_ptr<bool[]> p;
    size_t n;
    explicit Buf(size_t nn) : p(new bool[nn ? nn : 1]()), n(nn) { for (size_t i = 0; i < n; i++) p[i] = true; }
    explicit Buf(const std::vector<bool> &o) : p(new bool[o.size() ? o.size() : 1]()), n(o.size()) {
        for (size_t i = 0; i < n; i++) p[i] = o[i];
    }
    bool *data() { return p.get(); }
    const bool *data() const { return p.get(); }
    bool get(size_t i) const { return p[i]; }
    size_t size() const { return n; }
};

template <typename T> static void compare(const std::vector<T> &expect, const Buf<T> &got, const char *what, const std::vector<uint64_t> &off,
                                          const std::vector<uint64_t> &cnt) {
    VCHECK(expect.size() == got.size(), what << ": element count");
    for (size_t i = 0; i < expect.size(); i++) {
        if (!El<T>::eq(expect[i], got.get(i)))
            VCHECK(false, what << " offset=" << vs(off) << " count=" << vs(cnt) << ": element " << i << " reads " << El<T>::str(got.get(i))
                               << ", written value is " << El<T>::str(expect[i]));
    }
}

// can the double d be held exactly by the numeric nix type dt?
static bool representable(double d, DataType dt) {
    if (d != d || std::isinf(d)) return dt == DataType::Double || dt == DataType::Float;
    switch (dt) {
    case DataType::Double: return true;
    case DataType::Float: return static_cast<double>(static_cast<float>(d)) == d;
    case DataType::Int8: return d == std::floor(d) && d >= -128 && d <= 127;
    case DataType::Int16: return d == std::floor(d) && d >= -32768 && d <= 32767;
    case DataType::Int32: return d == std::floor(d) && d >= -2147483648.0 && d <= 2147483647.0;
    case DataType::Int64: return d == std::floor(d) && d >= -9.0e18 && d <= 9.0e18;
    case DataType::UInt8: return d == std::floor(d) && d >= 0 && d <= 255;
    case DataType::UInt16: return d == std::floor(d) && d >= 0 && d <= 65535;
    case DataType::UInt32: return d == std::floor(d) && d >= 0 && d <= 4294967295.0;
    case DataType::UInt64: return d == std::floor(d) && d >= 0 && d <= 1.8e19;
    default: return false;
    }
}

template <typename U> static std::vector<double> readAs(const nix::DataArray &da, DataType dt, const NDSize &cnt, const NDSize &off, size_t n) {
    std::vector<U> b(n ? n : 1, static_cast<U>(77));
    da.getData(dt, b.data(), cnt, off);
    std::vector<double> r(n);
    for (size_t i = 0; i < n; i++) r[i] = static_cast<double>(b[i]);
    return r;
}

static std::vector<double> readNumeric(const nix::DataArray &da, DataType dt, const NDSize &cnt, const NDSize &off, size_t n) {
    switch (dt) {
    case DataType::Double: return readAs<double>(da, dt, cnt, off, n);
    case DataType::Float: return readAs<float>(da, dt, cnt, off, n);
    case DataType::Int8: return readAs<int8_t>(da, dt, cnt, off, n);
    case DataType::Int16: return readAs<int16_t>(da, dt, cnt, off, n);
    case DataType::Int32: return readAs<int32_t>(da, dt, cnt, off, n);
    case DataType::Int64: return readAs<int64_t>(da, dt, cnt, off, n);
    case DataType::UInt8: return readAs<uint8_t>(da, dt, cnt, off, n);
    case DataType::UInt16: return readAs<uint16_t>(da, dt, cnt, off, n);
    case DataType::UInt32: return readAs<uint32_t>(da, dt, cnt, off, n);
    default: return readAs<uint64_t>(da, dt, cnt, off, n);
    }
}

static const DataType NUMERIC[] = {DataType::Int8,   DataType::Int16,  DataType::Int32,  DataType::Int64, DataType::UInt8,
                                   DataType::UInt16, DataType::UInt32, DataType::UInt64, DataType::Float, DataType::Double};

struct Calib {
    std::vector<double> coeff;
    boost::optional<double> origin;
    bool active() const { return !coeff.empty() || origin; }
};

// Hydra front ends exist for contiguous containers only (not for std::vector<bool>)
template <typename T> struct HydraIO {
    static const bool ok = true;
    static const bool ok2 = true;
    static void write1(nix::DataArray &da, const std::vector<T> &v, const NDSize &off) { da.setData(v, off); }
    static void read1(const nix::DataArray &da, std::vector<T> &v, const NDSize &cnt, const NDSize &off) { da.getData(v, cnt, off); }
    static void writeAll1(nix::DataArray &da, const std::vector<T> &v) { da.setData(v); }
    static void readAll1(const nix::DataArray &da, std::vector<T> &v) { da.getData(v); }
    static void writeAll2(nix::DataArray &da, const std::vector<T> &v, uint64_t r, uint64_t c) {
        boost::multi_array<T, 2> m(boost::extents[r][c]);
        for (uint64_t i = 0; i < r * c; i++) m.data()[i] = v[i];
        da.setData(m);
    }
    static void readAll2(const nix::DataArray &da, std::vector<T> &v, uint64_t &r, uint64_t &c) {
        boost::multi_array<T, 2> m;
        da.getData(m);
        r = m.shape()[0];
        c = m.shape()[1];
        v.assign(m.data(), m.data() + m.num_elements());
    }
    static void writeScalar(nix::DataArray &da, const T &v, const NDSize &off) { da.setData(v, off); }
    static void readScalar(const nix::DataArray &da, T &v, const NDSize &off) { da.getData(v, off); }
};
template <> struct HydraIO<std::string> {
    typedef std::string T;
    static const bool ok = true;
    static const bool ok2 = false;
    static void write1(nix::DataArray &da, const std::vector<T> &v, const NDSize &off) { da.setData(v, off); }
    static void read1(const nix::DataArray &da, std::vector<T> &v, const NDSize &cnt, const NDSize &off) { da.getData(v, cnt, off); }
    static void writeAll1(nix::DataArray &da, const std::vector<T> &v) { da.setData(v); }
    static void readAll1(const nix::DataArray &da, std::vector<T> &v) { da.getData(v); }
    static void writeAll2(nix::DataArray &, const std::vector<T> &, uint64_t, uint64_t) {}
    static void readAll2(const nix::DataArray &, std::vector<T> &, uint64_t &, uint64_t &) {}
    static void writeScalar(nix::DataArray &da, const T &v, const NDSize &off) { da.setData(v, off); }
    static void readScalar(const nix::DataArray &da, T &v, const NDSize &off) { da.getData(v, off); }
};
template <> struct HydraIO<bool> {
    static const bool ok = false;
    static const bool ok2 = true;
    static void write1(nix::DataArray &, const std::vector<bool> &, const NDSize &) {}
    static void read1(const nix::DataArray &, std::vector<bool> &, const NDSize &, const NDSize &) {}
    static void writeAll1(nix::DataArray &, const std::vector<bool> &) {}
    static void readAll1(const nix::DataArray &, std::vector<bool> &) {}
    static void writeAll2(nix::DataArray &da, const std::vector<bool> &v, uint64_t r, uint64_t c) {
        boost::multi_array<bool, 2> m(boost::extents[r][c]);
        for (uint64_t i = 0; i < r * c; i++) m.data()[i] = v[i];
        da.setData(m);
    }
    static void readAll2(const nix::DataArray &da, std::vector<bool> &v, uint64_t &r, uint64_t &c) {
        boost::multi_array<bool, 2> m;
        da.getData(m);
        r = m.shape()[0];
        c = m.shape()[1];
        v.assign(m.data(), m.data() + m.num_elements());
    }
    static void writeScalar(nix::DataArray &da, const bool &v, const NDSize &off) { da.setData(v, off); }
    static void readScalar(const nix::DataArray &da, bool &v, const NDSize &off) { da.getData(v, off); }
};

template <typename T> static void runTyped(Tape &t, Ctx &ctx, DataType dt, const char *tname) {
    const size_t rank = 1 + t.pick({4, 4, 2, 1});
    Model<T> m;
    for (size_t d = 0; d < rank; d++) {
        uint64_t e;
        switch (t.pick({3, 2, 5})) {
        case 0: e = 1; break;
        case 1: e = 0; break;
        default: e = 2 + t.below(5); break;
        }
        m.ext.push_back(e);
    }
    m.data.assign(m.nelms(), El<T>::zero());
    // compression: array level None / DeflateNormal / Auto (file level None or DeflateNormal)
    nix::Compression fileC = t.flip() ? nix::Compression::DeflateNormal : nix::Compression::None;
    nix::Compression arrC = static_cast<nix::Compression>(t.below(3));
    ctx.trace << "C01 " << tname << " rank=" << rank << " ext=" << vs(m.ext) << " fileC=" << static_cast<int>(fileC) << " arrC=" << static_cast<int>(arrC) << ": ";
    std::string path = ctx.path("c01.nix");
    nix::File file = nix::File::open(path, nix::FileMode::Overwrite, "hdf5", fileC);
    nix::Block block = file.createBlock("b", "t");
    nix::DataArray da = block.createDataArray("a", "t", dt, nd(m.ext), arrC);
    VCHECK(da.dataType() == dt, "dataType() after create");
    Calib cal;
    size_t writes = 0, extchg = 0, reopens = 0, mixed_reads = 0, calreads = 0;
    std::vector<char> written(m.nelms(), 0); // which elements were ever written (tracked through resizes below)
    Model<char> wmask;
    wmask.ext = m.ext;
    wmask.data.assign(m.nelms(), 0);
    const uint64_t MAXAXIS = 12;

    auto pickBlock = [&](std::vector<uint64_t> &off, std::vector<uint64_t> &cnt, bool allowEmpty) {
        off.assign(rank, 0);
        cnt.assign(rank, 0);
        for (size_t d = 0; d < rank; d++) {
            uint64_t e = m.ext[d];
            if (e == 0) {
                off[d] = 0;
                cnt[d] = 0;
                continue;
            }
            switch (t.pick({3, 3, 2})) {
            case 0: off[d] = 0; cnt[d] = e; break;                                  // full axis
            case 1: off[d] = t.below(static_cast<uint32_t>(e)); cnt[d] = 1; break; // single
            default:
                off[d] = t.below(static_cast<uint32_t>(e));
                cnt[d] = 1 + t.below(static_cast<uint32_t>(e - off[d]));
                break;
            }
        }
        (void)allowEmpty;
    };
    auto fullScan = [&](const char *when) {
        std::vector<uint64_t> off(rank, 0);
        NDSize ext = da.dataExtent();
        VCHECK(ext.size() == rank, when << ": rank of dataExtent() is " << ext.size());
        for (size_t d = 0; d < rank; d++) VCHECK(ext[d] == m.ext[d], when << ": dataExtent()[" << d << "] = " << ext[d] << ", model " << m.ext[d]);
        VCHECK(da.dataType() == dt, when << ": dataType() changed");
        if (m.nelms() == 0) return;
        Buf<T> b(m.nelms());
        da.getDataDirect(dt, b.data(), nd(m.ext), nd(off));
        compare(m.data, b, when, off, m.ext);
    };

    size_t nops = 1 + t.below(40);
    for (size_t op = 0; op < nops; op++) {
        if (op > 0 && t.exhausted()) break;
        size_t kind = t.pick({8, 3, 4, 4, 8, 3, 3, 3, 2, 2});
        if (kind == 0 || kind == 1) {
            // ---- write a hyperslab --------------------------------------------------------
            std::vector<uint64_t> off, cnt;
            pickBlock(off, cnt, false);
            uint64_t n = 1;
            for (uint64_t c : cnt) n *= c;
            if (n == 0) {
                ctx.trace << "w-skip(empty) ";
                continue;
            }
            std::vector<T> vals(n);
            bool smallv = El<T>::numeric && t.chance(40);
            for (auto &&v : vals) v = smallv ? El<T>::small(t) : El<T>::gen(t);
            size_t how = t.pick({4, 2, 2, 2});
            if (how == 1 && !(rank == 1 && HydraIO<T>::ok)) how = 0;
            if (how == 3 && n != 1) how = 2;
            Buf<T> b(vals);
            ctx.trace << "w" << how << vs(off) << "+" << vs(cnt) << " ";
            switch (how) {
            case 0: da.setData(dt, b.data(), nd(cnt), nd(off)); break;
            case 1: HydraIO<T>::write1(da, vals, nd(off)); break;
            case 2: da.setDataDirect(dt, b.data(), nd(cnt), nd(off)); break;
            default: HydraIO<T>::writeScalar(da, vals[0], nd(off)); break;
            }
            m.write(off, cnt, vals);
            wmask.write(off, cnt, std::vector<char>(n, 1));
            writes++;
        } else if (kind == 2) {
            // ---- whole-array setData through a container (sets the extent as well) ----------
            if (rank > 2 || (rank == 1 && !HydraIO<T>::ok) || (rank == 2 && !HydraIO<T>::ok2)) continue;
            std::vector<uint64_t> ne(rank);
            for (size_t d = 0; d < rank; d++) ne[d] = 1 + t.below(6);
            uint64_t n = 1;
            for (uint64_t e : ne) n *= e;
            std::vector<T> vals(n);
            for (auto &&v : vals) v = El<T>::gen(t);
            ctx.trace << "setAll" << vs(ne) << " ";
            if (rank == 1) HydraIO<T>::writeAll1(da, vals);
            else HydraIO<T>::writeAll2(da, vals, ne[0], ne[1]);
            m.resize(ne);
            wmask.resize(ne);
            std::vector<uint64_t> off(rank, 0);
            m.write(off, ne, vals);
            wmask.write(off, ne, std::vector<char>(n, 1));
            writes++;
            extchg++;
            if (!cal.active()) {
                // and back through the container overload of getData (whole array)
                std::vector<T> back;
                if (rank == 1) {
                    HydraIO<T>::readAll1(da, back);
                } else {
                    uint64_t r = 0, c = 0;
                    HydraIO<T>::readAll2(da, back, r, c);
                    VCHECK(r == ne[0] && c == ne[1], "getData(multi_array) shape " << r << "x" << c << ", array is " << vs(ne));
                }
                compare(m.data, Buf<T>(back), "getData(container) of the whole array", off, ne);
            }
        } else if (kind == 3) {
            // ---- append along an axis -------------------------------------------------------
            size_t axis = t.below(static_cast<uint32_t>(rank));
            std::vector<uint64_t> cnt = m.ext;
            cnt[axis] = 1 + t.below(3);
            if (m.ext[axis] + cnt[axis] > MAXAXIS) continue;
            uint64_t n = 1;
            for (uint64_t c : cnt) n *= c;
            std::vector<T> vals(n);
            for (auto &&v : vals) v = El<T>::gen(t);
            Buf<T> b(vals);
            ctx.trace << "append(axis=" << axis << ",n=" << cnt[axis] << ") ";
            da.appendData(dt, b.data(), nd(cnt), axis);
            std::vector<uint64_t> off(rank, 0);
            off[axis] = m.ext[axis];
            std::vector<uint64_t> ne = m.ext;
            ne[axis] += cnt[axis];
            m.resize(ne);
            wmask.resize(ne);
            if (n) {
                m.write(off, cnt, vals);
                wmask.write(off, cnt, std::vector<char>(n, 1));
                writes++;
            }
            extchg++;
        } else if (kind == 4 || kind == 5) {
            // ---- read a hyperslab ---------------------------------------------------------
            std::vector<uint64_t> off, cnt;
            pickBlock(off, cnt, false);
            uint64_t n = 1;
            for (uint64_t c : cnt) n *= c;
            if (n == 0) continue;
            std::vector<T> expect = m.read(off, cnt);
            std::vector<char> wm = wmask.read(off, cnt);
            bool has_w = false, has_u = false;
            for (char c : wm) (c ? has_w : has_u) = true;
            if (has_w && has_u) mixed_reads++;
            size_t how = t.pick({4, 2, 2, 2});
            if (how == 1 && !(rank == 1 && HydraIO<T>::ok)) how = 2;
            if (how == 3 && n != 1) how = 2;
            if (cal.active() && how != 2) how = El<T>::numeric ? 9 : 2; // calibrated read path checked separately
            ctx.trace << "r" << how << vs(off) << "+" << vs(cnt) << " ";
            if (how == 0) {
                Buf<T> b(n);
                da.getData(dt, b.data(), nd(cnt), nd(off));
                compare(expect, b, "getData(dtype,void*)", off, cnt);
            } else if (how == 1) {
                std::vector<T> v;
                HydraIO<T>::read1(da, v, nd(cnt), nd(off));
                compare(expect, Buf<T>(v), "getData(vector)", off, cnt);
            } else if (how == 2) {
                Buf<T> b(n);
                da.getDataDirect(dt, b.data(), nd(cnt), nd(off));
                compare(expect, b, "getDataDirect", off, cnt);
            } else if (how == 3) {
                T v = Sentinel<T>::value();
                HydraIO<T>::readScalar(da, v, nd(off));
                compare(expect, Buf<T>(std::vector<T>(1, v)), "getData(scalar)", off, cnt);
            } else {
                // calibrated read as Double: polynomial at (stored - origin), any evaluation order
                std::vector<double> got = readNumeric(da, DataType::Double, nd(cnt), nd(off), n);
                double origin = cal.origin ? *cal.origin : 0.0;
                bool exact = true;
                for (size_t i = 0; i < n; i++) {
                    double x = El<T>::toDouble(expect[i]) - origin;
                    double val, mag;
                    if (cal.coeff.empty()) {
                        val = x;
                        mag = std::fabs(x);
                    } else {
                        val = 0;
                        mag = 0;
                        double term = 1.0;
                        for (double c : cal.coeff) {
                            val += c * term;
                            mag += std::fabs(c * term);
                            term *= x;
                        }
                    }
                    if (!(std::fabs(x) <= 1000.0) || x != std::floor(x)) exact = false;
                    if (val != val || std::isinf(val) || mag != mag || std::isinf(mag)) {
                        exact = false;
                        continue; // overflow to inf/nan: not compared
                    }
                    double tol = 1e-9 * mag;
                    VCHECK(std::fabs(got[i] - val) <= tol, "calibrated read: element " << i << " of " << vs(off) << "+" << vs(cnt) << " is " << dstr(got[i])
                                                                                         << ", polynomial at (stored-origin)=" << dstr(x) << " gives "
                                                                                         << dstr(val));
                }
                // raw read unaffected
                Buf<T> b(n);
                da.getDataDirect(dt, b.data(), nd(cnt), nd(off));
                compare(expect, b, "getDataDirect with calibration set", off, cnt);
                // typed calibrated reads when every evaluation order is exact (small integers)
                if (exact) {
                    DataType tt = NUMERIC[t.below(10)];
                    bool all_rep = true;
                    std::vector<double> vals(n);
                    for (size_t i = 0; i < n; i++) {
                        double x = El<T>::toDouble(expect[i]) - origin, val = cal.coeff.empty() ? x : 0.0, term = 1.0;
                        for (double c : cal.coeff) {
                            val += c * term;
                            term *= x;
                        }
                        vals[i] = val;
                        all_rep = all_rep && representable(val, tt) && std::fabs(val) < 1e15;
                    }
                    if (all_rep) {
                        std::vector<double> g2 = readNumeric(da, tt, nd(cnt), nd(off), n);
                        for (size_t i = 0; i < n; i++)
                            VCHECK(g2[i] == vals[i], "calibrated read as " << nix::data_type_to_string(tt) << ": element " << i << " is " << dstr(g2[i])
                                                                          << ", expected " << dstr(vals[i]));
                        ctx.count("calibrated_typed_reads");
                    }
                }
                calreads++;
            }
        } else if (kind == 6) {
            // ---- dataExtent(new): grow and shrink per axis -----------------------------------
            std::vector<uint64_t> ne = m.ext;
            for (size_t d = 0; d < rank; d++) {
                switch (t.pick({3, 3, 3, 1})) {
                case 0: break;
                case 1: ne[d] = std::min<uint64_t>(MAXAXIS, ne[d] + 1 + t.below(3)); break;
                case 2: ne[d] = ne[d] > 0 ? ne[d] - std::min<uint64_t>(ne[d], 1 + t.below(2)) : 0; break;
                default: ne[d] = t.below(7); break;
                }
            }
            ctx.trace << "extent" << vs(ne) << " ";
            da.dataExtent(nd(ne));
            m.resize(ne);
            wmask.resize(ne);
            extchg++;
        } else if (kind == 7) {
            // ---- read as another numeric type (no calibration active) ------------------------
            if (!El<T>::numeric || cal.active()) continue;
            std::vector<uint64_t> off, cnt;
            pickBlock(off, cnt, false);
            uint64_t n = 1;
            for (uint64_t c : cnt) n *= c;
            if (n == 0) continue;
            std::vector<T> expect = m.read(off, cnt);
            DataType tt = NUMERIC[t.below(10)];
            bool rep = true;
            for (auto &&v : expect) rep = rep && representable(El<T>::toDouble(v), tt) && (std::fabs(El<T>::toDouble(v)) < 9.0e15 || El<T>::toDouble(v) != El<T>::toDouble(v) || std::isinf(El<T>::toDouble(v)));
            if (!rep) {
                ctx.count("excluded_cross_type_not_representable");
                continue;
            }
            ctx.trace << "rAs(" << nix::data_type_to_string(tt) << ")" << vs(off) << "+" << vs(cnt) << " ";
            std::vector<double> got = readNumeric(da, tt, nd(cnt), nd(off), n);
            for (size_t i = 0; i < n; i++) {
                double e = El<T>::toDouble(expect[i]);
                VCHECK((e != e && got[i] != got[i]) || got[i] == e, "read as " << nix::data_type_to_string(tt) << ": element " << i << " is " << dstr(got[i])
                                                                                << ", stored " << El<T>::str(expect[i]));
            }
            ctx.count("cross_type_reads");
        } else if (kind == 8) {
            // ---- calibration ---------------------------------------------------------------
            if (!El<T>::numeric) continue;
            switch (t.pick({3, 2, 2, 2})) {
            case 0: {
                cal.coeff.clear();
                size_t nc = 1 + t.below(4);
                bool ints = t.chance(70);
                for (size_t i = 0; i < nc; i++) cal.coeff.push_back(ints ? static_cast<double>(t.range(-3, 3)) : (t.unit() - 0.5) * 4.0);
                da.polynomCoefficients(cal.coeff);
                ctx.trace << "poly(" << nc << ") ";
                break;
            }
            case 1: cal.coeff.clear(); da.polynomCoefficients(nix::none); ctx.trace << "poly(none) "; break;
            case 2: cal.origin = t.chance(70) ? static_cast<double>(t.range(-5, 5)) : (t.unit() - 0.5) * 10.0; da.expansionOrigin(*cal.origin);
                ctx.trace << "origin(" << dstr(*cal.origin) << ") "; break;
            default: cal.origin = boost::none; da.expansionOrigin(nix::none); ctx.trace << "origin(none) "; break;
            }
            std::vector<double> pc = da.polynomCoefficients();
            VCHECK(pc == cal.coeff, "polynomCoefficients() does not read back");
            boost::optional<double> eo = da.expansionOrigin();
            VCHECK(static_cast<bool>(eo) == static_cast<bool>(cal.origin) && (!eo || *eo == *cal.origin), "expansionOrigin() does not read back");
        } else {
            // ---- close + reopen --------------------------------------------------------------
            bool ro = t.flip();
            ctx.trace << "reopen(" << (ro ? "ro" : "rw") << ") ";
            file.close();
            if (ro) {
                file = nix::File::open(path, nix::FileMode::ReadOnly);
                block = file.getBlock("b");
                da = block.getDataArray("a");
                fullScan("full scan after ReadOnly reopen");
                file.close();
            }
            file = nix::File::open(path, nix::FileMode::ReadWrite, "hdf5", fileC);
            block = file.getBlock("b");
            da = block.getDataArray("a");
            fullScan("full scan after reopen");
            VCHECK(da.polynomCoefficients() == cal.coeff, "polynomCoefficients() after reopen");
            reopens++;
        }
        // extent and type agree with the model after every step
        NDSize ext = da.dataExtent();
        VCHECK(ext.size() == rank, "rank of dataExtent()");
        for (size_t d = 0; d < rank; d++) VCHECK(ext[d] == m.ext[d], "dataExtent()[" << d << "] = " << ext[d] << ", model " << m.ext[d]);
    }
    fullScan("full scan at the end");
    file.close();
    file = nix::File::open(path, nix::FileMode::ReadOnly);
    block = file.getBlock("b");
    da = block.getDataArray("a");
    fullScan("full scan after final reopen");
    file.close();
    ctx.count(std::string("type_") + tname);
    ctx.count("rank_" + std::to_string(rank));
    if (reopens) ctx.count("with_reopen");
    if (calreads) ctx.count("with_calibrated_read");
    ctx.nontrivial = writes >= 2 && extchg >= 1 && mixed_reads >= 1;
}

static void body(Tape &t, Ctx &ctx) {
    switch (t.pick({1, 1, 1, 1, 1, 1, 1, 1, 1, 1, 2, 2})) {
    case 0: runTyped<bool>(t, ctx, DataType::Bool, "Bool"); break;
    case 1: runTyped<int8_t>(t, ctx, DataType::Int8, "Int8"); break;
    case 2: runTyped<int16_t>(t, ctx, DataType::Int16, "Int16"); break;
    case 3: runTyped<int32_t>(t, ctx, DataType::Int32, "Int32"); break;
    case 4: runTyped<int64_t>(t, ctx, DataType::Int64, "Int64"); break;
    case 5: runTyped<uint8_t>(t, ctx, DataType::UInt8, "UInt8"); break;
    case 6: runTyped<uint16_t>(t, ctx, DataType::UInt16, "UInt16"); break;
    case 7: runTyped<uint32_t>(t, ctx, DataType::UInt32, "UInt32"); break;
    case 8: runTyped<uint64_t>(t, ctx, DataType::UInt64, "UInt64"); break;
    case 9: runTyped<float>(t, ctx, DataType::Float, "Float"); break;
    case 10: runTyped<double>(t, ctx, DataType::Double, "Double"); break;
    default: runTyped<std::string>(t, ctx, DataType::String, "String"); break;
    }
}

} // namespace c01
