// c09.hpp - C09: ReadOnly never writes and refuses every mutation, ReadWrite preserves (creates if
// absent), Overwrite empties, files without a NIX header are refused.
//
//  session : a generated file is opened ReadOnly and a generated program of calls (every mutator kind of
//            prog.hpp) is run against it. Oracle: after every call the snapshot and the bytes of the file
//            are unchanged; differential must-throw rule: the same call is applied to a ReadWrite twin (a
//            fresh byte copy of the same file) - if it succeeds there and changes the twin's snapshot (or
//            fresh byte copy of the same file) - if it succeeds there and changes the twin's snapshot, the
//            ReadOnly call must have thrown.
//  modes   : ReadWrite on the existing file shows the same snapshot; ReadWrite on an absent path creates an
//            empty valid file; Overwrite on a copy gives an empty valid file that reopens; ReadOnly on an
//            absent path throws and creates nothing.
//  header  : a defect is injected with the raw HDF5 C API (or the file is replaced by a non-HDF5 file);
//            ReadOnly and ReadWrite open must throw, the failed ReadOnly open must not change the bytes, and
//            Overwrite on the defective file still yields an empty valid file.
#pragma once
#include "prog.hpp"

namespace c09 {

using namespace vf;

static bool uuidLike(const std::string &s) {
    if (s.size() != 36) return false;
    for (size_t i = 0; i < 36; i++) {
        if (i == 8 || i == 13 || i == 18 || i == 23) { if (s[i] != '-') return false; }
        else if (!isxdigit(static_cast<unsigned char>(s[i]))) return false;
    }
    return true;
}

static std::vector<int> libVersion(Ctx &ctx) {
    static std::vector<int> v;
    if (v.empty()) {
        nix::File f = nix::File::open(ctx.path("c09_libversion.nix"), nix::FileMode::Overwrite);
        v = f.version();
        f.close();
    }
    return v;
}

static void checkEmptyValid(nix::File &f, Ctx &ctx, const std::string &what) {
    VCHECK(f.isOpen(), what << ": the file is not open");
    VCHECK(f.blockCount() == 0 && f.sectionCount() == 0, what << ": the file is not empty (" << f.blockCount() << " blocks, " << f.sectionCount() << " sections)");
    VCHECK(f.format() == "nix", what << ": format is " << show(f.format()));
    VCHECK(f.version() == libVersion(ctx), what << ": the version is not the library's format version");
    VCHECK(uuidLike(f.id()), what << ": the file id " << show(f.id()) << " is not a UUID");
}

static nix::Compression comp(Tape &t) { return t.flip() ? nix::Compression::DeflateNormal : nix::Compression::None; }

// build a file with a generated program; returns its snapshot (taken before close)
static Ent buildFile(Tape &t, Ctx &ctx, const std::string &path, size_t minops, size_t maxops) {
    Prog p(t, ctx.trace, Profile::Valid);
    p.allow_reopen = false;
    p.start(path, ctx.path("c09_unused.nix"));
    size_t n = minops + t.below(static_cast<uint32_t>(maxops - minops + 1));
    for (size_t i = 0; i < n; i++) {
        if (i > 0 && t.exhausted()) break;
        p.step();
    }
    Ent s = snapshot(p.f);
    p.finish();
    return s;
}

static void session(Tape &t, Ctx &ctx) {
    std::string orig = ctx.path("c09.nix"), twin = ctx.path("c09_twin.nix");
    ctx.trace << "C09 session: build[ ";
    Ent S0 = buildFile(t, ctx, orig, 6, 45);
    ctx.trace << "] readonly[ ";
    const std::string bytes0 = slurp(orig);
    // configuration: the same file may be open for writing elsewhere in this process (HDF5 shares open files)
    nix::File rwAlso;
    if (t.chance(15)) {
        rwAlso = nix::File::open(orig, nix::FileMode::ReadWrite);
        ctx.trace << "(also open ReadWrite in this process) ";
    }
    nix::File ro;
    try {
        ro = nix::File::open(orig, nix::FileMode::ReadOnly, "hdf5", comp(t));
    } catch (const std::exception &e) {
        VCHECK(!!rwAlso, "ReadOnly open of a valid file failed: " << e.what());
        // refusing is fine: a handle that cannot be read-only is not handed out
        rwAlso.close();
        VCHECK(slurp(orig) == bytes0, "the refused ReadOnly open changed the bytes of the file");
        ctx.count("readonly_open_refused_while_open_for_writing");
        ctx.nontrivial = true;
        return;
    }
    {
        std::string d = diff(S0, snapshot(ro));
        VCHECK(d.empty(), "the ReadOnly view differs from the tree before close: " << d);
    }
    VCHECK(slurp(orig) == bytes0, "opening the file ReadOnly changed its bytes");
    size_t nsteps = 3 + t.below(25);
    std::set<std::string> mustThrowKinds;
    std::ostringstream sink;
    for (size_t i = 0; i < nsteps; i++) {
        if (t.exhausted()) break;
        // --- the call on a fresh ReadWrite twin
        spit(twin, bytes0);
        Tape t2 = t;
        StepInfo a;
        bool changed = false;
        {
            nix::File tw = nix::File::open(twin, nix::FileMode::ReadWrite);
            Prog pt(t2, ctx.trace, Profile::Valid);
            pt.allow_reopen = false;
            pt.f = tw;
            pt.path = twin;
            a = pt.step();
            if (!a.threw) changed = !diff(S0, snapshot(tw)).empty();
            tw.close();
        }
        // --- the same call on the ReadOnly file
        Tape t3 = t;
        Prog pr(t3, sink, Profile::Valid);
        pr.allow_reopen = false;
        pr.f = ro;
        pr.path = orig;
        StepInfo b = pr.step();
        t.i = t2.i;
        VCHECK(a.op == b.op, "harness: the twin decoded " << a.op << " but the ReadOnly file decoded " << b.op);
        VCHECK(slurp(orig) == bytes0, "the call " << b.op << (b.threw ? " (which threw)" : " (which returned normally)") << " on a ReadOnly file changed the bytes of the file");
        if (!a.threw && a.mutator && changed) {
            VCHECK(b.threw, "the mutating call " << b.op << " changes a ReadWrite copy of the file but returned without an exception on the ReadOnly file");
            mustThrowKinds.insert(b.op);
            ctx.count("readonly_refused:" + b.op);
        } else {
            ctx.count(b.threw ? "readonly_threw_without_obligation" : "readonly_no_effect_call");
        }
        // HDF5 1.10 updates its in-memory copy of an attribute before it notices the missing write intent, so
        // a refused scalar setter can be visible to getters of the same session although nothing reaches the
        // file. The statement speaks of bytes and exceptions only; the drift is counted, the view re-synchronised.
        if (!diff(S0, snapshot(ro)).empty()) {
            ctx.count("readonly_view_drift_after_refused_call(not required by the statement)");
            VCHECK(b.threw, "the call " << b.op << " returned normally on a ReadOnly file and changed what its getters report");
            ro.close();
            ro = nix::File::open(orig, nix::FileMode::ReadOnly);
            std::string d = diff(S0, snapshot(ro));
            VCHECK(d.empty(), "after the refused call " << b.op << " a fresh ReadOnly open shows a different tree: " << d);
        }
    }
    ro.close();
    if (rwAlso) rwAlso.close();
    VCHECK(slurp(orig) == bytes0, "closing the ReadOnly file changed its bytes");
    ctx.trace << "] ";
    // ReadWrite keeps everything
    {
        nix::File rw = nix::File::open(orig, nix::FileMode::ReadWrite, "hdf5", comp(t));
        std::string d = diff(S0, snapshot(rw));
        rw.close();
        VCHECK(d.empty(), "ReadWrite open of the existing file does not show the prior content: " << d);
    }
    ctx.nontrivial = mustThrowKinds.size() >= 5 && entityCount(S0) >= 6;
    ctx.count("must_throw_kinds", mustThrowKinds.size());
}

static void modes(Tape &t, Ctx &ctx) {
    std::string orig = ctx.path("c09m.nix"), copy = ctx.path("c09m_copy.nix"), absent = ctx.path("c09m_absent.nix");
    unlink(absent.c_str());
    ctx.trace << "C09 modes: build[ ";
    Ent S0 = buildFile(t, ctx, orig, 3, 30);
    ctx.trace << "] ";
    const std::string bytes0 = slurp(orig);
    // ReadOnly on an absent path: refused, nothing created
    bool threw = false;
    try {
        nix::File f = nix::File::open(absent, nix::FileMode::ReadOnly, "hdf5", comp(t));
        f.close();
    } catch (const std::exception &) { threw = true; }
    VCHECK(threw, "ReadOnly open of a path that does not exist returned a File");
    VCHECK(!file_exists(absent), "the refused ReadOnly open of an absent path created the file");
    // ReadWrite on an absent path: created, empty, valid, reopenable
    {
        nix::File f = nix::File::open(absent, nix::FileMode::ReadWrite, "hdf5", comp(t));
        checkEmptyValid(f, ctx, "ReadWrite open of an absent path");
        std::string id = f.id();
        f.createBlock("b", "t");
        f.close();
        nix::File g = nix::File::open(absent, nix::FileMode::ReadOnly);
        VCHECK(g.id() == id && g.blockCount() == 1, "the file created by a ReadWrite open does not reopen with its content");
        g.close();
    }
    // ReadWrite on the existing file: prior content intact, and still there after close
    {
        nix::File f = nix::File::open(orig, nix::FileMode::ReadWrite, "hdf5", comp(t));
        std::string d = diff(S0, snapshot(f));
        f.close();
        VCHECK(d.empty(), "ReadWrite open of the existing file does not show the prior content: " << d);
        nix::File g = nix::File::open(orig, nix::FileMode::ReadOnly);
        d = diff(S0, snapshot(g));
        g.close();
        VCHECK(d.empty(), "after a ReadWrite open + close without modification the content differs: " << d);
    }
    // Overwrite on a copy: empty and valid, also after reopen
    {
        spit(copy, bytes0);
        nix::File f = nix::File::open(copy, nix::FileMode::Overwrite, "hdf5", comp(t));
        checkEmptyValid(f, ctx, "Overwrite open of an existing file");
        std::string id = f.id();
        f.close();
        nix::File g = nix::File::open(copy, t.flip() ? nix::FileMode::ReadOnly : nix::FileMode::ReadWrite);
        checkEmptyValid(g, ctx, "reopen of an overwritten file");
        VCHECK(g.id() == id, "the id of the overwritten file changed on reopen");
        g.close();
    }
    // Overwrite on an absent path
    {
        unlink(absent.c_str());
        nix::File f = nix::File::open(absent, nix::FileMode::Overwrite, "hdf5", comp(t));
        checkEmptyValid(f, ctx, "Overwrite open of an absent path");
        f.close();
    }
    ctx.nontrivial = entityCount(S0) >= 4;
    ctx.count("modes_cases");
}

// raw HDF5 edits of the root group's attributes
static bool h5_root_edit(const std::string &path, const std::function<bool(hid_t)> &fn) {
    hid_t f = H5Fopen(path.c_str(), H5F_ACC_RDWR, H5P_DEFAULT);
    if (f < 0) return false;
    hid_t o = H5Oopen(f, "/", H5P_DEFAULT);
    bool ok = o >= 0 && fn(o);
    if (o >= 0) H5Oclose(o);
    H5Fclose(f);
    return ok;
}
static bool h5_set_string_attr(hid_t o, const char *name, const std::string &v) {
    if (H5Aexists(o, name) > 0) H5Adelete(o, name);
    hid_t ty = H5Tcopy(H5T_C_S1);
    H5Tset_size(ty, H5T_VARIABLE);
    hid_t sp = H5Screate(H5S_SCALAR);
    hid_t a = H5Acreate2(o, name, ty, sp, H5P_DEFAULT, H5P_DEFAULT);
    const char *p = v.c_str();
    bool ok = a >= 0 && H5Awrite(a, ty, &p) >= 0;
    if (a >= 0) H5Aclose(a);
    H5Sclose(sp);
    H5Tclose(ty);
    return ok;
}
static bool h5_set_int_attr(hid_t o, const char *name, const std::vector<int> &v) {
    if (H5Aexists(o, name) > 0) H5Adelete(o, name);
    hsize_t dims[1] = {v.size()};
    hid_t sp = H5Screate_simple(1, dims, nullptr);
    hid_t a = H5Acreate2(o, name, H5T_STD_I32LE, sp, H5P_DEFAULT, H5P_DEFAULT);
    bool ok = a >= 0 && H5Awrite(a, H5T_NATIVE_INT, v.data()) >= 0;
    if (a >= 0) H5Aclose(a);
    H5Sclose(sp);
    return ok;
}

static void header(Tape &t, Ctx &ctx) {
    std::string path = ctx.path("c09h.nix");
    ctx.trace << "C09 header: build[ ";
    buildFile(t, ctx, path, 0, 12);
    ctx.trace << "] defect=";
    std::vector<int> lib = libVersion(ctx);
    size_t k = t.below(14);
    std::string name;
    bool ok = true;
    switch (k) {
    case 0: name = "format attribute deleted"; ok = h5_root_edit(path, [](hid_t o) { return H5Adelete(o, "format") >= 0; }); break;
    case 1: {
        static const char *wrong[] = {"xin", "NIX", "nix ", "", "hdf5", "nix2"};
        std::string w = wrong[t.below(6)];
        name = "format = " + show(w);
        ok = h5_root_edit(path, [&](hid_t o) { return h5_set_string_attr(o, "format", w); });
        break;
    }
    case 2: name = "format attribute of integer type"; ok = h5_root_edit(path, [](hid_t o) { return h5_set_int_attr(o, "format", {1}); }); break;
    case 3: name = "version attribute deleted"; ok = h5_root_edit(path, [](hid_t o) { return H5Adelete(o, "version") >= 0; }); break;
    case 4: {
        size_t n = t.flip() ? 2 : (t.flip() ? 4 : 1);
        name = "version attribute with " + std::to_string(n) + " elements";
        std::vector<int> v(n, lib[0]);
        ok = h5_root_edit(path, [&](hid_t o) { return h5_set_int_attr(o, "version", v); });
        break;
    }
    case 5: name = "version attribute of string type"; ok = h5_root_edit(path, [](hid_t o) { return h5_set_string_attr(o, "version", "1.2.0"); }); break;
    case 6: name = "id attribute deleted"; ok = h5_root_edit(path, [](hid_t o) { return H5Adelete(o, "id") >= 0; }); break;
    case 7: name = "format and version deleted"; ok = h5_root_edit(path, [](hid_t o) { return H5Adelete(o, "format") >= 0 && H5Adelete(o, "version") >= 0; }); break;
    case 8: {
        name = "plain HDF5 file";
        unlink(path.c_str());
        hid_t f = H5Fcreate(path.c_str(), H5F_ACC_TRUNC, H5P_DEFAULT, H5P_DEFAULT);
        ok = f >= 0;
        if (ok) {
            if (t.flip()) { hid_t g = H5Gcreate2(f, "data", H5P_DEFAULT, H5P_DEFAULT, H5P_DEFAULT); if (g >= 0) H5Gclose(g); name += " with a data group"; }
            H5Fclose(f);
        }
        break;
    }
    case 9: name = "empty file (0 bytes)"; spit(path, ""); break;
    case 10: {
        name = "text file";
        std::string txt = "this is not an HDF5 file\n";
        for (size_t i = 0, n = t.below(200); i < n; i++) txt += static_cast<char>('a' + t.below(26));
        spit(path, txt);
        break;
    }
    case 11: {
        std::string b = slurp(path);
        size_t cut = b.size() ? 1 + t.below(static_cast<uint32_t>(std::min<size_t>(b.size() - 1, 4096))) : 0;
        name = "truncated to " + std::to_string(cut) + " of " + std::to_string(b.size()) + " bytes";
        spit(path, b.substr(0, cut));
        break;
    }
    case 12: {
        name = "HDF5 signature followed by garbage";
        std::string b = slurp(path).substr(0, 8);
        for (size_t i = 0, n = 64 + t.below(512); i < n; i++) b += static_cast<char>(t.below(256));
        spit(path, b);
        break;
    }
    default: name = "format deleted, id deleted"; ok = h5_root_edit(path, [](hid_t o) { return H5Adelete(o, "format") >= 0 && H5Adelete(o, "id") >= 0; }); break;
    }
    VCHECK(ok, "harness: could not inject the defect '" << name << "'");
    ctx.trace << show(name);
    const std::string bytes = slurp(path);
    for (int m = 0; m < 2; m++) {
        nix::FileMode mode = m == 0 ? nix::FileMode::ReadOnly : nix::FileMode::ReadWrite;
        bool usable = false;
        std::string what;
        try {
            nix::File f = nix::File::open(path, mode, "hdf5", comp(t));
            usable = f.isOpen();
            f.close();
        } catch (const std::exception &e) {
            what = e.what();
        }
        VCHECK(!usable, "a file with the header defect '" << name << "' was opened in " << (m == 0 ? "ReadOnly" : "ReadWrite") << " mode and a usable File returned");
        if (m == 0) VCHECK(slurp(path) == bytes, "the refused ReadOnly open of a file with the defect '" << name << "' changed its bytes");
        ctx.count(std::string("defect_refused:") + (m == 0 ? "ro:" : "rw:") + "class" + std::to_string(k) + ":" + name.substr(0, std::min(name.find_first_of("=0123456789"), name.size())));
    }
    // Overwrite always yields an empty valid file, whatever was there
    {
        nix::File f = nix::File::open(path, nix::FileMode::Overwrite, "hdf5", comp(t));
        checkEmptyValid(f, ctx, "Overwrite open of a file with the defect '" + name + "'");
        f.close();
        nix::File g = nix::File::open(path, nix::FileMode::ReadOnly);
        checkEmptyValid(g, ctx, "reopen after Overwrite of a defective file");
        g.close();
    }
    ctx.nontrivial = true;
}

static void body(Tape &t, Ctx &ctx) {
    switch (t.pick({5, 2, 3})) {
    case 0: session(t, ctx); break;
    case 1: modes(t, ctx); break;
    default: header(t, ctx); break;
    }
}

} // namespace c09
