#pragma once
namespace c19 { static void body(vf::Tape &, vf::Ctx &) {} }
