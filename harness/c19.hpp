// c19.hpp - C19: the validator accepts every rule-conforming file, flags every hard-rule breach with an
// error at the breached entity, and reports soft-rule breaches as warnings only.
//
// A constructive generator builds a conforming file; File::validate() must report no error. Then 0-5
// breaches are injected at entities chosen from the tape - through the public API where it allows them,
// through the raw HDF5 C API where the API (rightly) refuses (unsorted ticks, interval <= 0). Oracle:
//   * every hard-breached entity carries at least one error (descriptor-level rules, whose messages have no
//     entity id: at least as many such errors as breached descriptors);
//   * no entity that was not hard-breached carries an error (soft breaches never produce errors);
//   * every soft breach the validator has a rule for produces a warning at that entity.
#pragma once
#include "region.hpp"

namespace c19 {

using namespace vf;
using namespace rg;

struct ArrInfo {
    std::string block, name, id;
    ArraySpec spec;
    bool shared = false; // referenced by tags (not used for deletion)
};
struct TagInfo {
    std::string block, name, id;
    bool multi = false;
    size_t ref = 0;      // index into arrays
    size_t nunits = 0;
    std::string posName; // multi tag: dedicated positions array
    std::vector<std::pair<std::string, std::string>> features; // (feature id, dedicated data array name)
};
struct PropInfo { std::vector<std::string> path; std::string name, id; bool hasValues = false; };

struct World {
    std::string path;
    nix::File f;
    std::vector<ArrInfo> arrays;
    std::vector<TagInfo> tags;
    std::vector<PropInfo> props;
    std::vector<std::string> blocks;
    std::set<std::string> allIds;
};

static const char *SI_BASE[] = {"s", "V", "m", "Hz", "A"};

static void buildConforming(Tape &t, Ctx &ctx, World &w) {
    w.f = nix::File::open(w.path, nix::FileMode::Overwrite);
    size_t nb = 1 + t.below(3);
    for (size_t bi = 0; bi < nb; bi++) {
        std::string bn = "block" + std::to_string(bi);
        nix::Block b = w.f.createBlock(bn, "t");
        w.blocks.push_back(bn);
        w.allIds.insert(b.id());
        size_t na = 1 + t.below(4);
        size_t firstArr = w.arrays.size();
        for (size_t k = 0; k < na; k++) {
            ArrInfo ai;
            ai.block = bn;
            ai.name = "arr" + std::to_string(k);
            ai.spec = genArray(t, 1, 3, 6, t.flip());
            // units of the descriptors must be atomic SI units: genArray only produces such units
            nix::DataArray a = buildArray(b, ai.name, ai.spec);
            ai.id = a.id();
            switch (t.pick({3, 3, 2})) {
            case 0: break;
            case 1: a.unit(std::string(t.flip() ? "m" : "") + SI_BASE[t.below(5)]); break;
            default: a.unit("mV/s"); break;
            }
            if (t.chance(30)) { a.polynomCoefficients({1.0, 2.0}); a.expansionOrigin(0.5); }
            w.arrays.push_back(ai);
            w.allIds.insert(ai.id);
        }
        size_t nt = t.below(4);
        for (size_t k = 0; k < nt; k++) {
            TagInfo ti;
            ti.block = bn;
            ti.multi = t.flip();
            ti.name = std::string(ti.multi ? "mtag" : "tag") + std::to_string(k);
            ti.ref = firstArr + t.below(static_cast<uint32_t>(na));
            ArrInfo &ra = w.arrays[ti.ref];
            ra.shared = true;
            nix::DataArray ref = b.getDataArray(ra.name);
            size_t R = ra.spec.rank();
            size_t npos = 1 + t.below(static_cast<uint32_t>(R));
            // units convertible to the referenced dimensions' units (another prefix of the same base), or none
            std::vector<std::string> units;
            bool anyUnit = false;
            size_t nu = t.below(static_cast<uint32_t>(npos + 1));
            for (size_t d = 0; d < nu; d++) {
                const std::string &du = ra.spec.dims[d].axis.unit;
                if (!du.empty() && t.chance(75)) {
                    // strip the prefix of the dimension unit (units come from rg::genUnit: prefix in {"" m u k n M} + base)
                    std::string base = du;
                    for (auto bs : BASES) { std::string s = bs; if (du.size() >= s.size() && du.compare(du.size() - s.size(), s.size(), s) == 0) base = s; }
                    units.push_back(std::string(PREFIXES[t.below(6)].first) + base);
                    anyUnit = true;
                } else if (du.empty()) units.push_back("mV"); // the dimension has no unit: any SI unit is acceptable there
                else units.push_back(du);
            }
            if (ti.multi) {
                ti.posName = "pos_" + ti.name;
                size_t N = 1 + t.below(4);
                nix::NDSize shape = R == 1 ? nix::NDSize({static_cast<nix::ndsize_t>(N)}) : nix::NDSize({static_cast<nix::ndsize_t>(N), static_cast<nix::ndsize_t>(npos)});
                nix::DataArray pa = b.createDataArray(ti.posName, "t", nix::DataType::Double, shape);
                pa.appendSetDimension();
                if (R != 1) pa.appendSetDimension();
                w.allIds.insert(pa.id());
                nix::MultiTag mt = b.createMultiTag(ti.name, "t", pa);
                if (anyUnit) mt.units(units);
                mt.addReference(ref);
                ti.id = mt.id();
                ti.nunits = anyUnit ? units.size() : 0;
                size_t nf = t.below(3);
                for (size_t q = 0; q < nf; q++) {
                    std::string dn = "fd_" + ti.name + "_" + std::to_string(q);
                    nix::DataArray fd = b.createDataArray(dn, "t", nix::DataType::Double, nix::NDSize({static_cast<nix::ndsize_t>(2)}));
                    fd.appendSetDimension();
                    w.allIds.insert(fd.id());
                    nix::Feature ft = mt.createFeature(fd, static_cast<nix::LinkType>(t.below(3)));
                    ti.features.emplace_back(ft.id(), dn);
                    w.allIds.insert(ft.id());
                }
            } else {
                std::vector<double> pos(npos, 0.0);
                nix::Tag tg = b.createTag(ti.name, "t", pos);
                if (anyUnit) tg.units(units);
                tg.addReference(ref);
                ti.id = tg.id();
                ti.nunits = anyUnit ? units.size() : 0;
                size_t nf = t.below(3);
                for (size_t q = 0; q < nf; q++) {
                    std::string dn = "fd_" + ti.name + "_" + std::to_string(q);
                    nix::DataArray fd = b.createDataArray(dn, "t", nix::DataType::Double, nix::NDSize({static_cast<nix::ndsize_t>(2)}));
                    fd.appendSetDimension();
                    w.allIds.insert(fd.id());
                    nix::Feature ft = tg.createFeature(fd, static_cast<nix::LinkType>(t.below(3)));
                    ti.features.emplace_back(ft.id(), dn);
                    w.allIds.insert(ft.id());
                }
            }
            w.tags.push_back(ti);
            w.allIds.insert(ti.id);
        }
        size_t ns = t.below(3);
        for (size_t k = 0; k < ns; k++) {
            nix::Source s = b.createSource("src" + std::to_string(k), "t");
            w.allIds.insert(s.id());
            if (t.flip()) w.allIds.insert(s.createSource("child", "t").id());
        }
    }
    size_t nsec = t.below(4);
    for (size_t k = 0; k < nsec; k++) {
        nix::Section s = w.f.createSection("sec" + std::to_string(k), "t");
        w.allIds.insert(s.id());
        std::vector<std::string> path = {s.name()};
        nix::Section cur = s;
        if (t.flip()) { cur = s.createSection("sub", "t"); path.push_back("sub"); w.allIds.insert(cur.id()); }
        size_t np = t.below(3);
        for (size_t q = 0; q < np; q++) {
            PropInfo pi;
            pi.path = path;
            pi.name = "p" + std::to_string(q);
            if (t.flip()) {
                nix::Property p = cur.createProperty(pi.name, nix::Variant(1.5));
                p.unit("mV");
                pi.hasValues = true;
                pi.id = p.id();
            } else {
                pi.id = cur.createProperty(pi.name, nix::DataType::Double).id();
            }
            w.props.push_back(pi);
            w.allIds.insert(pi.id);
        }
    }
    (void)ctx;
}

struct Findings {
    std::map<std::string, size_t> errById, warnById;
    size_t errNoEntity = 0, warnNoEntity = 0;
    std::vector<std::string> errText;
};

static Findings runValidator(World &w) {
    Findings fd;
    nix::valid::Result r = w.f.validate();
    for (auto &e : r.getErrors()) {
        if (w.allIds.count(e.id)) fd.errById[e.id]++;
        else fd.errNoEntity++;
        fd.errText.push_back(e.id.substr(0, 8) + ":" + e.msg);
    }
    for (auto &e : r.getWarnings()) {
        if (w.allIds.count(e.id)) fd.warnById[e.id]++;
        else fd.warnNoEntity++;
    }
    return fd;
}

static bool h5_edit(const std::string &file, const std::string &objPath, const std::function<bool(hid_t)> &fn) {
    hid_t f = H5Fopen(file.c_str(), H5F_ACC_RDWR, H5P_DEFAULT);
    if (f < 0) return false;
    hid_t o = H5Oopen(f, objPath.c_str(), H5P_DEFAULT);
    bool ok = o >= 0 && fn(o);
    if (o >= 0) H5Oclose(o);
    H5Fclose(f);
    return ok;
}

static void body(Tape &t, Ctx &ctx) {
    World w;
    w.path = ctx.path("c19.nix");
    buildConforming(t, ctx, w);
    ctx.trace << "C19 file: " << w.blocks.size() << " blocks, " << w.arrays.size() << " arrays, " << w.tags.size() << " tags, " << w.props.size() << " properties;";
    Findings base = runValidator(w);
    {
        std::string all;
        for (auto &e : base.errText) all += " [" + e + "]";
        VCHECK(base.errText.empty(), "the validator reports " << base.errText.size() << " error(s) for a file that conforms to every hard rule:" << all);
    }
    // ---- breaches
    size_t nbreach = t.below(6);
    std::set<std::string> hardIds, softIds, locked; // locked: arrays whose descriptors a breached tag unit refers to
    size_t hardDescriptors = 0, softDescriptors = 0;
    std::set<std::string> softDescSeen;
    bool offFirst = false;
    std::vector<std::function<bool()>> raw; // edits that need the file closed
    for (size_t k = 0; k < nbreach; k++) {
        switch (t.pick({3, 3, 2, 2, 2, 2, 2, 2, 2, 1, 1, 1, 1})) {
        case 0: { // number of descriptors differs from the rank
            if (w.arrays.empty()) break;
            size_t i = t.below(static_cast<uint32_t>(w.arrays.size()));
            ArrInfo &ai = w.arrays[i];
            if (locked.count(ai.id) || hardIds.count(ai.id) || hardIds.count("descriptor-of:" + ai.id) || softDescSeen.count("array:" + ai.id)) break;
            nix::DataArray a = w.f.getBlock(ai.block).getDataArray(ai.name);
            if (t.flip()) { a.appendSetDimension(); ctx.trace << " +descriptor(" << ai.name << ")"; }
            else { a.deleteDimensions(); ctx.trace << " -descriptors(" << ai.name << ")"; }
            hardIds.insert(ai.id);
            if (i > 0) offFirst = true;
            break;
        }
        case 1: { // ticks / labels / rows differ from the data length
            if (w.arrays.empty()) break;
            size_t i = t.below(static_cast<uint32_t>(w.arrays.size()));
            ArrInfo &ai = w.arrays[i];
            if (hardIds.count(ai.id) || locked.count(ai.id) || hardIds.count("descriptor-of:" + ai.id)) break;
            nix::DataArray a = w.f.getBlock(ai.block).getDataArray(ai.name);
            size_t d = t.below(static_cast<uint32_t>(ai.spec.rank()));
            const DimSpec &ds = ai.spec.dims[d];
            nix::Dimension dim = a.getDimension(d + 1);
            uint64_t n = ai.spec.ext[d];
            bool done = false;
            if (ds.axis.kind == AK::Range) {
                std::vector<double> tk = ds.axis.ticks;
                if (t.flip() && tk.size() > 1) tk.pop_back(); else tk.push_back(tk.back() + 1.0);
                dim.asRangeDimension().ticks(tk);
                done = true;
                ctx.trace << " ticks-count(" << ai.name << " dim " << d + 1 << ")";
            } else if (ds.axis.kind == AK::Set) {
                std::vector<std::string> l(n + 1 + t.below(2), "x");
                dim.asSetDimension().labels(l);
                done = true;
                ctx.trace << " labels-count(" << ai.name << " dim " << d + 1 << ")";
            } else if (ds.axis.kind == AK::Frame) {
                nix::DataFrame df = w.f.getBlock(ai.block).getDataFrame(ai.name + "_f" + std::to_string(d));
                df.rows(n + 1 + t.below(2));
                done = true;
                ctx.trace << " rows-count(" << ai.name << " dim " << d + 1 << ")";
            }
            if (done) { hardIds.insert(ai.id); if (i > 0 || d > 0) offFirst = true; }
            break;
        }
        case 2: { // unsorted ticks (raw)
            if (w.arrays.empty()) break;
            size_t i = t.below(static_cast<uint32_t>(w.arrays.size()));
            ArrInfo &ai = w.arrays[i];
            if (hardIds.count(ai.id) || locked.count(ai.id) || hardIds.count("descriptor-of:" + ai.id)) break;
            for (size_t d = 0; d < ai.spec.rank(); d++) {
                if (ai.spec.dims[d].axis.kind != AK::Range || ai.spec.ext[d] < 2) continue;
                std::vector<double> tk = ai.spec.dims[d].axis.ticks;
                std::swap(tk.front(), tk.back());
                std::string p = "/data/" + ai.block + "/data_arrays/" + ai.name + "/dimensions/" + std::to_string(d + 1) + "/ticks";
                std::string file = w.path;
                raw.push_back([file, p, tk] { return h5_edit(file, p, [&](hid_t o) { return H5Dwrite(o, H5T_NATIVE_DOUBLE, H5S_ALL, H5S_ALL, H5P_DEFAULT, tk.data()) >= 0; }); });
                hardDescriptors++;
                hardIds.insert("descriptor-of:" + ai.id);
                ai.spec.dims[d].axis.ticks = tk;
                ctx.trace << " unsorted-ticks(" << ai.name << " dim " << d + 1 << ")";
                if (i > 0 || d > 0) offFirst = true;
                break;
            }
            break;
        }
        case 3: { // non-positive interval (raw)
            if (w.arrays.empty()) break;
            size_t i = t.below(static_cast<uint32_t>(w.arrays.size()));
            ArrInfo &ai = w.arrays[i];
            if (hardIds.count(ai.id) || locked.count(ai.id) || hardIds.count("descriptor-of:" + ai.id)) break;
            for (size_t d = 0; d < ai.spec.rank(); d++) {
                if (ai.spec.dims[d].axis.kind != AK::Sampled || ai.spec.dims[d].axis.interval <= 0) continue;
                double v = t.flip() ? 0.0 : -ai.spec.dims[d].axis.interval;
                std::string p = "/data/" + ai.block + "/data_arrays/" + ai.name + "/dimensions/" + std::to_string(d + 1);
                std::string file = w.path;
                raw.push_back([file, p, v] {
                    return h5_edit(file, p, [&](hid_t o) {
                        hid_t a = H5Aopen(o, "sampling_interval", H5P_DEFAULT);
                        bool ok = a >= 0 && H5Awrite(a, H5T_NATIVE_DOUBLE, &v) >= 0;
                        if (a >= 0) H5Aclose(a);
                        return ok;
                    });
                });
                hardDescriptors++;
                hardIds.insert("descriptor-of:" + ai.id);
                ai.spec.dims[d].axis.interval = v;
                ctx.trace << " interval<=0(" << ai.name << " dim " << d + 1 << ")";
                if (i > 0 || d > 0) offFirst = true;
                break;
            }
            break;
        }
        case 4: { // tag unit that cannot be converted
            if (w.tags.empty()) break;
            size_t i = t.below(static_cast<uint32_t>(w.tags.size()));
            TagInfo &ti = w.tags[i];
            ArrInfo &ra = w.arrays[ti.ref];
            if (hardIds.count(ra.id) || hardIds.count("descriptor-of:" + ra.id)) break; // the referenced descriptors must still be there
            // a dimension of the reference that has a unit
            std::vector<size_t> cand;
            for (size_t d = 0; d < ra.spec.rank(); d++) if (!ra.spec.dims[d].axis.unit.empty()) cand.push_back(d);
            if (cand.empty()) break;
            size_t d = cand[t.below(static_cast<uint32_t>(cand.size()))];
            std::vector<std::string> units(d + 1 + t.below(static_cast<uint32_t>(ra.spec.rank() - d)));
            for (size_t e = 0; e < units.size(); e++) units[e] = ra.spec.dims[e].axis.unit.empty() ? std::string("mV") : ra.spec.dims[e].axis.unit;
            const std::string du = ra.spec.dims[d].axis.unit;
            // another base unit
            std::string other = "K";
            for (auto bs : SI_BASE) if (du.find(bs) == std::string::npos) other = bs;
            if (du.size() >= other.size() && du.compare(du.size() - other.size(), other.size(), other) == 0) other = "cd";
            units[d] = (t.flip() ? "m" : "") + other;
            if (t.chance(20)) units.resize(ra.spec.rank() + 1, "mV"); // more units than the reference has dimensions: no rule forbids it
            locked.insert(ra.id);
            nix::Block b = w.f.getBlock(ti.block);
            if (ti.multi) b.getMultiTag(ti.name).units(units); else b.getTag(ti.name).units(units);
            hardIds.insert(ti.id);
            ctx.trace << " inconvertible-unit(" << ti.name << " -> " << ra.name << ": units";
            for (auto &u : units) ctx.trace << " " << u;
            ctx.trace << " vs dimension units";
            for (auto &dd : ra.spec.dims) ctx.trace << " " << (dd.axis.unit.empty() ? "-" : dd.axis.unit);
            ctx.trace << ")";
            if (d > 0 || i > 0) offFirst = true;
            break;
        }
        case 5: { // multi tag without positions
            std::vector<size_t> cand;
            for (size_t i = 0; i < w.tags.size(); i++) if (w.tags[i].multi && !hardIds.count(w.tags[i].id + ":nopos")) cand.push_back(i);
            if (cand.empty()) break;
            TagInfo &ti = w.tags[cand[t.below(static_cast<uint32_t>(cand.size()))]];
            nix::Block b = w.f.getBlock(ti.block);
            if (!b.hasDataArray(ti.posName)) break;
            w.allIds.erase(b.getDataArray(ti.posName).id());
            b.deleteDataArray(ti.posName);
            hardIds.insert(ti.id);
            hardIds.insert(ti.id + ":nopos");
            ctx.trace << " no-positions(" << ti.name << ")";
            break;
        }
        case 6: { // feature without data
            std::vector<std::pair<size_t, size_t>> cand;
            for (size_t i = 0; i < w.tags.size(); i++) for (size_t q = 0; q < w.tags[i].features.size(); q++) cand.emplace_back(i, q);
            if (cand.empty()) break;
            auto c = cand[t.below(static_cast<uint32_t>(cand.size()))];
            TagInfo &ti = w.tags[c.first];
            nix::Block b = w.f.getBlock(ti.block);
            const std::string &dn = ti.features[c.second].second;
            if (!b.hasDataArray(dn)) break;
            w.allIds.erase(b.getDataArray(dn).id());
            b.deleteDataArray(dn);
            hardIds.insert(ti.features[c.second].first);
            ctx.trace << " feature-without-data(" << ti.name << " feature " << c.second << ")";
            if (c.second > 0) offFirst = true;
            break;
        }
        // ---- soft rules
        case 7: { // non-SI array unit
            if (w.arrays.empty()) break;
            ArrInfo &ai = w.arrays[t.below(static_cast<uint32_t>(w.arrays.size()))];
            w.f.getBlock(ai.block).getDataArray(ai.name).unit(t.flip() ? "foo" : "volts");
            softIds.insert(ai.id);
            ctx.trace << " soft:non-SI-unit(" << ai.name << ")";
            break;
        }
        case 8: { // coefficients without origin / origin without coefficients
            if (w.arrays.empty()) break;
            ArrInfo &ai = w.arrays[t.below(static_cast<uint32_t>(w.arrays.size()))];
            nix::DataArray a = w.f.getBlock(ai.block).getDataArray(ai.name);
            if (t.flip()) { a.polynomCoefficients({1.0, 3.0}); a.expansionOrigin(nix::none); ctx.trace << " soft:coefficients-without-origin(" << ai.name << ")"; }
            else { a.polynomCoefficients(nix::none); a.expansionOrigin(2.0); ctx.trace << " soft:origin-without-coefficients(" << ai.name << ")"; }
            softIds.insert(ai.id);
            break;
        }
        case 9: { // missing array unit: no rule, must simply not be an error
            if (w.arrays.empty()) break;
            ArrInfo &ai = w.arrays[t.below(static_cast<uint32_t>(w.arrays.size()))];
            if (softIds.count(ai.id)) break;
            w.f.getBlock(ai.block).getDataArray(ai.name).unit(nix::none);
            ctx.trace << " soft:missing-unit(" << ai.name << ")";
            break;
        }
        case 10: { // property values without unit
            std::vector<size_t> cand;
            for (size_t i = 0; i < w.props.size(); i++) if (w.props[i].hasValues) cand.push_back(i);
            if (cand.empty()) break;
            PropInfo &pi = w.props[cand[t.below(static_cast<uint32_t>(cand.size()))]];
            nix::Section s = w.f.getSection(pi.path[0]);
            for (size_t q = 1; q < pi.path.size(); q++) s = s.getSection(pi.path[q]);
            s.getProperty(pi.name).unit(boost::none);
            softIds.insert(pi.id);
            ctx.trace << " soft:values-without-unit(" << pi.name << ")";
            break;
        }
        case 11: { // offset without unit
            if (w.arrays.empty()) break;
            ArrInfo &ai = w.arrays[t.below(static_cast<uint32_t>(w.arrays.size()))];
            if (hardIds.count(ai.id) || hardIds.count("descriptor-of:" + ai.id) || locked.count(ai.id)) break;
            nix::DataArray a = w.f.getBlock(ai.block).getDataArray(ai.name);
            for (size_t d = 0; d < ai.spec.rank(); d++) {
                if (ai.spec.dims[d].axis.kind != AK::Sampled) continue;
                nix::SampledDimension sd = a.getDimension(d + 1).asSampledDimension();
                sd.offset(1.5);
                sd.unit(nix::none);
                if (softDescSeen.insert(ai.id + "/" + std::to_string(d)).second) softDescriptors++;
                softDescSeen.insert("array:" + ai.id);
                ctx.trace << " soft:offset-without-unit(" << ai.name << " dim " << d + 1 << ")";
                // a tag that relied on this unit would now be judged against "no unit", which is still conforming
                ai.spec.dims[d].axis.unit.clear();
                break;
            }
            break;
        }
        default: break;
        }
    }
    if (!raw.empty()) {
        w.f.close();
        for (auto &e : raw) VCHECK(e(), "harness: raw HDF5 edit failed");
        w.f = nix::File::open(w.path, nix::FileMode::ReadWrite);
    }
    Findings fd;
    try {
        fd = runValidator(w);
    } catch (const std::exception &e) {
        VCHECK(false, "File::validate() threw " << typeid(e).name() << ": " << e.what());
    }
    std::string all;
    for (auto &e : fd.errText) all += " [" + e + "]";
    // every hard-breached entity is flagged
    for (auto &id : hardIds) {
        if (id.find(':') != std::string::npos) continue;
        VCHECK(fd.errById.count(id) > 0, "the entity " << id << " breaches a hard rule but the validator reports no error for it; errors:" << all);
    }
    VCHECK(fd.errNoEntity >= hardDescriptors, hardDescriptors << " dimension descriptor(s) breach a hard rule (unsorted ticks / interval <= 0) but only " << fd.errNoEntity
                                                              << " descriptor-level error(s) are reported; errors:" << all);
    // nothing else is flagged as an error: conforming entities and soft breaches
    for (auto &kv : fd.errById)
        VCHECK(hardIds.count(kv.first) > 0, "the validator reports an error for entity " << kv.first << " which breaches no hard rule" << (softIds.count(kv.first) ? " (only a soft rule)" : "")
                                                                                          << "; errors:" << all);
    if (hardDescriptors == 0) VCHECK(fd.errNoEntity == 0, "the validator reports " << fd.errNoEntity << " descriptor-level error(s) although no descriptor breaches a hard rule; errors:" << all);
    // soft breaches produce warnings
    for (auto &id : softIds)
        VCHECK(fd.warnById.count(id) > 0, "the entity " << id << " breaches a soft rule but the validator reports no warning for it");
    VCHECK(fd.warnNoEntity >= softDescriptors, softDescriptors << " descriptor(s) have an offset without unit but only " << fd.warnNoEntity << " descriptor-level warning(s) are reported");
    w.f.close();
    ctx.count("breaches_hard", hardIds.size());
    ctx.count("breaches_soft", softIds.size() + softDescriptors);
    if (nbreach == 0) ctx.count("conforming_only");
    bool rich = w.blocks.size() >= 2;
    for (auto &a : w.arrays) if (a.spec.rank() >= 2) rich = true;
    ctx.nontrivial = rich && (hardIds.size() + hardDescriptors > 0) && offFirst;
}

} // namespace c19
