// c05.hpp - C05 (Tag retrieval) and the request generator shared with C06 / C18.
#pragma once
#include "region.hpp"

namespace c05 {

using namespace vf;
using namespace rg;

struct Req {
    std::vector<double> pos, ext;    // values as stored in the tag (in tag units)
    bool hasExt = false;
    bool mismatch = false;           // extent length differs from position length
    std::vector<std::string> units;  // tag units
    std::vector<DimReq> dims;        // what the statement asks of every data dimension (axis units)
    std::vector<DimReq> lo, hi;      // the same with the scaling factor perturbed by -+1e-9 (stability of scaled requests)
    bool scaled = false, near = false;
    std::string trace;
};

inline const char *modeName(nix::RangeMatch m) { return m == nix::RangeMatch::Inclusive ? "Inclusive" : "Exclusive"; }

static bool splitPUnit(const std::string &u, std::string &base, int &exp10) {
    for (auto b : BASES) {
        std::string bs = b;
        if (u.size() >= bs.size() && u.compare(u.size() - bs.size(), bs.size(), bs) == 0) {
            std::string pre = u.substr(0, u.size() - bs.size());
            for (auto &p : PREFIXES)
                if (pre == p.first) {
                    base = bs;
                    exp10 = p.second;
                    return true;
                }
        }
    }
    return false;
}

// one request (a tag, or one row of a multi tag) against an array
//   npos     : number of position entries (may be smaller or larger than the rank)
//   unitMode : 0 no units at all, 1 units on some entries (equal or prefix-scaled)
struct UnitChoice {
    std::string unit = "none";
    double f = 1.0;
    bool scaled = false;
};

inline Req genReq(Tape &t, const ArraySpec &s, size_t npos, bool hasExt, nix::RangeMatch mode, int unitMode, bool allowMismatch,
                  std::vector<UnitChoice> *fixedUnits = nullptr) {
    Req r;
    r.hasExt = hasExt;
    std::ostringstream tr;
    size_t nspec = std::min(npos, s.rank());
    size_t nunits = unitMode == 0 ? 0 : (t.chance(70) ? npos : t.below(static_cast<uint32_t>(npos + 1)));
    r.dims.resize(nspec);
    r.lo.resize(nspec);
    r.hi.resize(nspec);
    for (size_t d = 0; d < npos; d++) {
        if (d >= s.rank()) {
            // more entries than dimensions: ignored by the statement
            r.pos.push_back(static_cast<double>(t.range(-2, 5)));
            r.ext.push_back(static_cast<double>(t.range(0, 3)));
            if (d < nunits) r.units.push_back("none");
            tr << " [extra " << dstr(r.pos.back()) << "]";
            continue;
        }
        const Axis &a = s.dims[d].axis;
        uint64_t n = s.ext[d];
        // unit of this entry
        std::string unit = "none";
        double f = 1.0;
        bool scaledHere = false;
        if (fixedUnits && d < fixedUnits->size()) {
            unit = (*fixedUnits)[d].unit;
            f = (*fixedUnits)[d].f;
            scaledHere = (*fixedUnits)[d].scaled;
        } else if (d < nunits && !a.unit.empty() && (a.kind == AK::Sampled || a.kind == AK::Range)) {
            std::string base;
            int e10 = 0;
            if (splitPUnit(a.unit, base, e10)) {
                switch (t.pick({2, 3, 4})) {
                case 0: unit = "none"; break;
                case 1: unit = a.unit; break;
                default: {
                    auto &p = PREFIXES[t.below(6)];
                    unit = std::string(p.first) + base;
                    f = pow10i(p.second - e10);
                    scaledHere = p.second != e10;
                    break;
                }
                }
            }
        }
        if (fixedUnits && d >= fixedUnits->size()) {
            UnitChoice uc;
            uc.unit = unit;
            uc.f = f;
            uc.scaled = scaledHere;
            fixedUnits->push_back(uc);
        }
        if (d < nunits || fixedUnits) r.units.push_back(unit);
        Pos q = genPos(t, a, n, scaledHere);
        std::string ecls = "absent";
        bool enear = false;
        double e = hasExt ? genExtent(t, a, n, q, scaledHere, ecls, enear) : 0.0;
        // values in tag units
        double pt = scaledHere ? q.p / f : q.p;
        double et = scaledHere ? e / f : e;
        r.pos.push_back(pt);
        r.ext.push_back(et);
        // what the library is documented to do with them: start = p * f, end = (p + e) * f
        auto mk = [&](double ff) {
            DimReq dr;
            dr.specified = true;
            dr.start = pt * ff;
            dr.end = (pt + et) * ff;
            dr.point = !hasExt || et == 0.0;
            dr.mode = hasExt ? mode : nix::RangeMatch::Inclusive;
            return dr;
        };
        r.dims[d] = mk(f);
        r.lo[d] = mk(f * (1.0 - 1e-9));
        r.hi[d] = mk(f * (1.0 + 1e-9));
        if (scaledHere) r.scaled = true;
        if (q.near || enear) r.near = true;
        tr << " [" << q.cls << "=" << dstr(pt) << (hasExt ? " ext:" + ecls + "=" + dstr(et) : std::string()) << (unit != "none" ? " unit=" + unit : std::string()) << "]";
    }
    if (hasExt && allowMismatch && t.chance(4)) {
        r.mismatch = true;
        if (r.ext.size() > 1 && t.flip()) r.ext.pop_back(); else r.ext.push_back(1.0);
        tr << " EXTENT-LENGTH-MISMATCH";
    }
    r.trace = tr.str();
    return r;
}

// the alternative the known finding KF-1 produces: unspecified dimensions of length n >= 2 lose their last element
inline bool kf1Alternative(const ArraySpec &s, size_t nspec, const Expect &e, Expect &alt) {
    if (e.error || nspec >= s.rank()) return false;
    alt = e;
    bool differs = false;
    for (size_t d = nspec; d < s.rank(); d++)
        if (s.ext[d] >= 2) { alt.cnt[d] = s.ext[d] - 1; differs = true; }
    return differs;
}

struct Outcome {
    bool got = false, oob = false;
    std::string extype, what;
};

template <typename F> static Outcome callView(F f, nix::DataView *&out, std::unique_ptr<nix::DataView> &hold) {
    Outcome o;
    try {
        hold.reset(new nix::DataView(f()));
        out = hold.get();
        o.got = true;
    } catch (const nix::OutOfBounds &e) {
        o.oob = true;
        o.extype = "nix::OutOfBounds";
        o.what = e.what();
    } catch (const std::exception &e) {
        o.extype = typeid(e).name();
        o.what = e.what();
    }
    return o;
}

// decide one retrieval against the expectation; KF-1 recognised by its exact signature
static void judge(const std::string &what, const ArraySpec &s, const Expect &e, const Outcome &o, const nix::DataView *view, bool mismatch, bool kfEligible, size_t nspec,
                  Ctx &ctx) {
    if (mismatch) {
        VCHECK(!o.got, what << ": extent and position lengths differ but data was returned");
        ctx.count("outcome:length_mismatch_refused");
        return;
    }
    if (e.error) {
        VCHECK(!o.got, what << ": expected an out-of-bounds error (" << e.why << ") but a view of shape " << (view ? ndstr(view->dataExtent()) : std::string("?")) << " was returned");
        VCHECK(o.oob, what << ": expected nix::OutOfBounds (" << e.why << ") but " << o.extype << " was thrown: " << o.what);
        ctx.count("outcome:out_of_bounds");
        return;
    }
    VCHECK(o.got, what << ": expected " << e.str() << " but " << o.extype << " was thrown: " << o.what);
    std::string mm = viewMismatch(s, *view, e);
    if (!mm.empty()) {
        Expect alt;
        if (kfEligible && kf1Alternative(s, nspec, e, alt) && viewMismatch(s, *view, alt).empty())
            throw Known("KF-1", what + ": unspecified dimension(s) returned without their last element: got " + alt.str() + ", the statement says " + e.str());
        VCHECK(false, what << ": " << mm);
    }
    ctx.count("outcome:block_returned");
}

static bool stable(const ArraySpec &s, const Req &r, const Expect &e) {
    if (!r.scaled) return true;
    Expect a = refRegion(s, r.lo), b = refRegion(s, r.hi);
    return a.error == e.error && b.error == e.error && a.off == e.off && b.off == e.off && a.cnt == e.cnt && b.cnt == e.cnt;
}

static void body(Tape &t, Ctx &ctx) {
    nix::File f = nix::File::open(ctx.path("c05.nix"), nix::FileMode::Overwrite);
    nix::Block b = f.createBlock("b", "t");
    bool wantUnits = t.chance(35);
    ArraySpec s = genArray(t, 1, 3, 9, wantUnits);
    nix::DataArray a = buildArray(b, "data", s);
    nix::RangeMatch mode = t.flip() ? nix::RangeMatch::Exclusive : nix::RangeMatch::Inclusive;
    size_t npos = t.chance(55) ? s.rank() : 1 + t.below(static_cast<uint32_t>(s.rank() + 1));
    bool hasExt = t.chance(75);
    Req r = genReq(t, s, npos, hasExt, mode, wantUnits ? 1 : 0, true);
    ctx.trace << "C05 " << s.describe() << " tag" << r.trace << " mode=" << modeName(mode);
    nix::Tag tag = b.createTag("tag", "t", r.pos);
    if (hasExt) tag.extent(r.ext);
    if (!r.units.empty()) tag.units(r.units);
    tag.addReference(a);
    size_t nspec = std::min(npos, s.rank());
    Expect e = refRegion(s, r.dims);
    if (!r.mismatch && !stable(s, r, e)) {
        ctx.count("excluded:scaled_request_sensitive_to_factor_rounding");
        f.close();
        return;
    }
    bool kfEligible = mode == nix::RangeMatch::Exclusive && hasExt && nspec < s.rank();
    // ---- the reference retrieval through one of the entry points
    nix::DataView *view = nullptr;
    std::unique_ptr<nix::DataView> hold;
    Outcome o;
    std::string entry;
    switch (t.pick({4, 2, 2, 2})) {
    case 0: entry = "util::taggedData(tag, array, mode)"; o = callView([&] { return nix::util::taggedData(tag, a, mode); }, view, hold); break;
    case 1: entry = "util::taggedData(tag, 0, mode)"; o = callView([&] { return nix::util::taggedData(tag, 0, mode); }, view, hold); break;
    case 2:
        if (mode == nix::RangeMatch::Exclusive) { entry = "Tag::taggedData(\"data\") [default mode]"; o = callView([&] { return tag.taggedData("data"); }, view, hold); }
        else { entry = "util::retrieveData(tag, array) [default mode]"; o = callView([&] { return nix::util::retrieveData(tag, a); }, view, hold); }
        break;
    default:
        if (mode == nix::RangeMatch::Exclusive) { entry = "Tag::taggedData(0) [default mode]"; o = callView([&] { return tag.taggedData(static_cast<size_t>(0)); }, view, hold); }
        else { entry = "util::retrieveData(tag, 0) [default mode]"; o = callView([&] { return nix::util::retrieveData(tag, static_cast<nix::ndsize_t>(0)); }, view, hold); }
        break;
    }
    ctx.trace << " via " << entry << " expect " << e.str();
    ctx.count("entry:" + entry);
    bool proper = false;
    if (!e.error) for (size_t d = 0; d < nspec; d++) if (e.cnt[d] < s.ext[d]) proper = true;
    ctx.nontrivial = !r.mismatch && ((proper && r.near) || nspec < s.rank() || e.error);
    try {
        judge(entry, s, e, o, view, r.mismatch, kfEligible, nspec, ctx);
    } catch (const Known &) {
        f.close();
        throw;
    }
    // getOffsetAndCount agrees with the view
    if (!e.error && !r.mismatch) {
        nix::NDSize off, cnt;
        nix::util::getOffsetAndCount(tag, a, off, cnt, mode);
        bool same = off.size() == e.off.size() && cnt.size() == e.cnt.size();
        for (size_t d = 0; same && d < e.off.size(); d++) same = off[d] == e.off[d] && cnt[d] == e.cnt[d];
        VCHECK(same, "getOffsetAndCount gives offset " << ndstr(off) << " count " << ndstr(cnt) << ", the statement says " << e.str());
    }
    // ---- features (only for tags without units: the feature array has its own, unrelated units)
    if (!r.mismatch && r.units.empty() && t.chance(45)) {
        ArraySpec fs = genArray(t, 1, 3, 6, false);
        nix::DataArray fa = buildArray(b, "feat", fs);
        nix::LinkType lt = static_cast<nix::LinkType>(t.below(3));
        nix::Feature ft = tag.createFeature(fa, lt);
        Expect fe;
        size_t fspec = std::min(npos, fs.rank());
        if (lt == nix::LinkType::Tagged) {
            std::vector<DimReq> fr(fspec);
            for (size_t d = 0; d < fspec; d++) {
                fr[d].specified = true;
                fr[d].start = r.pos[d];
                fr[d].end = r.pos[d] + (hasExt ? r.ext[d] : 0.0);
                fr[d].point = !hasExt || r.ext[d] == 0.0;
                fr[d].mode = hasExt ? mode : nix::RangeMatch::Inclusive;
            }
            fe = refRegion(fs, fr);
        } else {
            for (size_t d = 0; d < fs.rank(); d++) { fe.off.push_back(0); fe.cnt.push_back(fs.ext[d]); }
        }
        nix::DataView *fv = nullptr;
        std::unique_ptr<nix::DataView> fh;
        std::string fentry = std::string("featureData[") + nix::link_type_to_string(lt) + "]";
        Outcome fo = t.flip() ? callView([&] { return nix::util::featureData(tag, 0, mode); }, fv, fh) : callView([&] { return nix::util::featureData(tag, ft, mode); }, fv, fh);
        ctx.trace << " feature " << fs.describe() << " " << nix::link_type_to_string(lt) << " expect " << fe.str();
        ctx.count("feature:" + nix::link_type_to_string(lt));
        judge(fentry, fs, fe, fo, fv, false, lt == nix::LinkType::Tagged && mode == nix::RangeMatch::Exclusive && hasExt && fspec < fs.rank(), fspec, ctx);
    }
    f.close();
}

} // namespace c05
