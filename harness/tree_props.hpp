// tree_props.hpp - C02 C03 C04 C08 C12 over tape-decoded API programs and snapshots
#pragma once
#include <fstream>
#include "prog.hpp"
#include <sys/wait.h>

namespace tp {

using namespace vf;

static std::string g_self; // path of this executable (for the other-process reopen)

struct Files {
    std::string a, b;
    Files(Ctx &ctx, const char *tag) : a(ctx.path(std::string(tag) + ".nix")), b(ctx.path(std::string(tag) + "_other.nix")) {}
};

static std::set<std::string> kindsIn(const Ent &s) {
    std::set<std::string> k;
    walk(s, [&](const Ent &e) { k.insert(e.kind); });
    return k;
}
static size_t liveLinks(const Ent &s) {
    size_t n = 0;
    walk(s, [&](const Ent &e) {
        for (auto &l : e.links) if (l.second != ABSENT) n++;
        for (auto &l : e.lists) n += l.second.size();
    });
    return n;
}

// =======================================================================================
// C08 - a rejected operation leaves no trace
// =======================================================================================
static void c08(Tape &t, Ctx &ctx) {
    Files fs(ctx, "c08");
    Prog p(t, ctx.trace, Profile::Reject);
    ctx.trace << "C08: ";
    p.start(fs.a, fs.b);
    if (!t.chance(25)) { furnishFile(p.f); ctx.trace << "(furnished) "; }
    Ent otherSnap = snapshot(p.other);
    Ent prev = snapshot(p.f);
    size_t nops = 5 + t.below(76);
    std::set<std::string> classes;
    bool nontrivial = false;
    for (size_t i = 0; i < nops; i++) {
        if (i > 0 && t.exhausted()) break;
        StepInfo si = p.step();
        Ent now = snapshot(p.f);
        if (si.threw) {
            std::string d = diff(prev, now);
            VCHECK(d.empty(), "the rejected call " << si.op << (si.bad.empty() ? "" : " {" + si.bad + "}") << " (threw " << si.extype
                                                   << ") changed the observable state: " << d);
            if (si.bad.find("other_file") != std::string::npos) {
                std::string d2 = diff(otherSnap, snapshot(p.other));
                VCHECK(d2.empty(), "the rejected call " << si.op << " {" << si.bad << "} changed the OTHER file: " << d2);
            }
            std::string cls = si.bad.empty() ? "natural(" + si.op + ")" : si.bad;
            ctx.count("rejected:" + cls);
            classes.insert(cls + "@" + si.op);
            if (entityCount(prev) >= 4) nontrivial = true;
        }
        prev = std::move(now);
    }
    p.finish();
    ctx.nontrivial = nontrivial;
    ctx.count("rejections_checked", classes.size());
}

// =======================================================================================
// C02 - close / reopen preserves the whole tree
// =======================================================================================
static std::string dumpOtherProcess(const std::string &path) {
    std::string cmd = "ASAN_OPTIONS=detect_leaks=0 '" + g_self + "' dump '" + path + "' 2>/dev/null";
    FILE *pp = popen(cmd.c_str(), "r");
    if (!pp) return "<popen failed>";
    std::string out;
    char buf[65536];
    size_t n;
    while ((n = fread(buf, 1, sizeof buf, pp)) > 0) out.append(buf, n);
    int rc = pclose(pp);
    if (rc != 0) out += "<exit " + std::to_string(rc) + ">";
    return out;
}

static const Ent *findById(const Ent &e, const std::string &id) {
    if (e.id == id && e.kind != "file") return &e;
    for (auto &k : e.kids)
        for (auto &c : k.second)
            if (const Ent *r = findById(c, id)) return r;
    return nullptr;
}

// what is observable before closing includes what handles obtained earlier report: each of them must
// show the same entity as a fresh handle (and therefore as the reopened file)
static void heldHandlesAgree(Prog &p, const Ent &fresh, Ctx &ctx, const char *when) {
    auto cmp = [&](const Ent &held, const char *what) {
        const Ent *f = findById(fresh, held.id);
        if (!f) return; // deleted meanwhile
        std::string d = diff(held, *f);
        VCHECK(d.empty(), when << ": a " << what << " handle obtained in an earlier step shows a different entity than the file holds: " << d);
        ctx.count(std::string("held_handle_compared:") + what);
    };
    for (auto &h : p.heldTags) { bool ok = false; try { ok = h.second && h.second.isValidEntity(); } catch (const std::exception &) {} if (ok) cmp(snapTag(h.second), "tag"); }
    for (auto &h : p.heldMTags) { bool ok = false; try { ok = h.second && h.second.isValidEntity(); } catch (const std::exception &) {} if (ok) cmp(snapMultiTag(h.second), "multi tag"); }
    for (auto &h : p.heldArrays) { bool ok = false; try { ok = h.second && h.second.isValidEntity(); } catch (const std::exception &) {} if (ok) cmp(snapArray(h.second), "data array"); }
    for (auto &kv : p.blockHandles)
        for (auto &h : kv.second) { bool ok = false; try { ok = h && h.isValidEntity(); } catch (const std::exception &) {} if (ok) cmp(snapBlock(h), "block"); }
    for (auto &h : p.heldGroups) { bool ok = false; try { ok = h.second && h.second.isValidEntity(); } catch (const std::exception &) {} if (ok) cmp(snapGroup(h.second), "group"); }
}

// blind = the tree before close is read from a byte copy of the flushed file, so that the file that is closed and
// reopened has NOT been walked by getters beforehand (a getter that creates optional groups on the fly would
// otherwise repair the file for the ReadOnly reopen - seeded C02-c)
static void c02Reopen(Prog &p, Ctx &ctx, bool otherProc, const char *when, bool blind = false) {
    Ent before;
    if (blind) {
        p.dropHeld();
        p.f.flush();
        std::string cp = p.path + ".cp";
        {
            std::ifstream in(p.path, std::ios::binary);
            std::ofstream out(cp, std::ios::binary | std::ios::trunc);
            out << in.rdbuf();
        }
        {
            nix::File c = nix::File::open(cp, nix::FileMode::ReadWrite);
            before = snapshot(c);
            c.close();
        }
        unlink(cp.c_str());
        ctx.count("blind_reopens");
    } else {
        before = snapshot(p.f);
        heldHandlesAgree(p, before, ctx, when);
        p.dropHeld();
    }
    std::string beforeFlat = otherProc ? flatStr(before) : std::string();
    p.f.close();
    {
        nix::File ro = nix::File::open(p.path, nix::FileMode::ReadOnly);
        std::string d = diff(before, snapshot(ro));
        ro.close();
        VCHECK(d.empty(), when << ": tree after ReadOnly reopen differs from the tree before close: " << d);
    }
    if (otherProc) {
        std::string o = dumpOtherProcess(p.path);
        if (o != beforeFlat) {
            // locate the first differing line
            size_t i = 0;
            while (i < o.size() && i < beforeFlat.size() && o[i] == beforeFlat[i]) i++;
            size_t ls = beforeFlat.rfind('\n', i);
            ls = ls == std::string::npos ? 0 : ls + 1;
            VCHECK(false, when << ": tree seen by ANOTHER PROCESS differs from the tree before close near: " << beforeFlat.substr(ls, 200) << "  VERSUS  "
                               << o.substr(std::min(ls, o.size()), 200));
        }
        ctx.count("other_process_reopens");
    }
    p.f = nix::File::open(p.path, nix::FileMode::ReadWrite);
    std::string d = diff(before, snapshot(p.f));
    VCHECK(d.empty(), when << ": tree after ReadWrite reopen differs from the tree before close: " << d);
}

static void c02(Tape &t, Ctx &ctx) {
    Files fs(ctx, "c02");
    Prog p(t, ctx.trace, Profile::Valid);
    p.allow_reopen = false;
    ctx.trace << "C02: ";
    p.start(fs.a, fs.b);
    if (!t.chance(40)) { furnishFile(p.f); ctx.trace << "(furnished) "; }
    size_t nops = 5 + t.below(76);
    size_t deletes = 0, reopens = 0;
    for (size_t i = 0; i < nops; i++) {
        if (i > 0 && t.exhausted()) break;
        if (t.chance(6)) {
            ctx.trace << "REOPEN ";
            c02Reopen(p, ctx, false, "inside the history", t.chance(50));
            reopens++;
            continue;
        }
        StepInfo si = p.step();
        if (!si.threw && (si.is_delete || si.is_unlink) && si.returned_true) deletes++;
    }
    bool otherProc = t.chance(40);
    c02Reopen(p, ctx, otherProc, "at the end", t.chance(50));
    Ent fin = snapshot(p.f); // after the reopen: nothing may walk the file before a blind close
    std::set<std::string> kinds = kindsIn(fin);
    size_t links = liveLinks(fin);
    p.finish();
    ctx.nontrivial = deletes >= 1 && kinds.size() >= 5 && links >= 1;
    if (reopens) ctx.count("with_inner_reopen");
    ctx.count("entities", entityCount(fin));
}

// =======================================================================================
// C12 (histories) - ids well formed, unique, stable
// =======================================================================================
static bool wellFormedUUID(const std::string &s) {
    if (s.size() != 36) return false;
    for (size_t i = 0; i < 36; i++) {
        if (i == 8 || i == 13 || i == 18 || i == 23) {
            if (s[i] != '-') return false;
        } else if (!isxdigit(static_cast<unsigned char>(s[i]))) return false;
    }
    return true;
}

static void collectIds(const Ent &e, const std::string &path, std::map<std::string, std::string> &byPath, std::vector<std::string> &all) {
    std::string p = path + "/" + e.kind + ":" + e.name;
    if (e.kind != "dim") {
        all.push_back(e.id);
        if (e.kind != "feature") byPath[p] = e.id;
    }
    for (auto &k : e.kids)
        for (auto &c : k.second) collectIds(c, p + "/" + k.first, byPath, all);
}

static void c12hist(Tape &t, Ctx &ctx) {
    Files fs(ctx, "c12");
    Prog p(t, ctx.trace, Profile::Valid);
    ctx.trace << "C12: ";
    p.start(fs.a, fs.b);
    if (t.chance(45)) { furnishFile(p.f); ctx.trace << "(furnished) "; }
    std::map<std::string, std::string> prevByPath;
    std::set<std::string> ever;
    {
        std::vector<std::string> all;
        collectIds(snapshot(p.f), "", prevByPath, all);
        for (auto &i : all) ever.insert(i);
    }
    size_t nops = 5 + t.below(60);
    size_t sessions = 1, creates = 0;
    for (size_t i = 0; i < nops; i++) {
        if (i > 0 && t.exhausted()) break;
        StepInfo si = p.step();
        p.lookThroughKeptHandles();
        if (si.is_reopen && !si.threw) sessions++;
        if (si.is_create && !si.threw) creates++;
        Ent now = snapshot(p.f);
        std::map<std::string, std::string> byPath;
        std::vector<std::string> all;
        collectIds(now, "", byPath, all);
        std::set<std::string> seen;
        for (auto &id : all) {
            VCHECK(wellFormedUUID(id), "after " << si.op << ": id " << show(id) << " is not a well-formed UUID");
            VCHECK(seen.insert(id).second, "after " << si.op << ": id " << id << " occurs twice in the file");
        }
        for (auto &kv : byPath) {
            auto it = prevByPath.find(kv.first);
            if (it != prevByPath.end()) {
                VCHECK(it->second == kv.second, "after " << si.op << ": the id of " << kv.first << " changed from " << it->second << " to " << kv.second);
            } else {
                VCHECK(!ever.count(kv.second), "after " << si.op << ": the new entity " << kv.first << " received the id " << kv.second
                                                        << " that was used before in this file");
            }
        }
        for (auto &id : all) ever.insert(id);
        prevByPath.swap(byPath);
    }
    p.finish();
    ctx.nontrivial = sessions >= 2 && creates >= 3;
    ctx.count("sessions", sessions);
}

// =======================================================================================
// C12 (schedules) - ids of processes with generated start seconds never collide.
// The harness executable defines time() (see h_tree.cpp): g_fake_time >= 0 or the environment
// variable VERIF_FAKE_TIME make it return that second. Only time() is faked.
// =======================================================================================
extern "C" long g_fake_time;

// what one process does: create a file with k entities and draw k more ids; returns all ids
static std::vector<std::string> idWorker(const std::string &path, size_t k) {
    std::vector<std::string> ids;
    nix::File f = nix::File::open(path, nix::FileMode::Overwrite);
    ids.push_back(f.id());
    nix::Block b = f.createBlock("b", "t");
    ids.push_back(b.id());
    nix::Section s = f.createSection("s", "t");
    ids.push_back(s.id());
    for (size_t i = 0; i < k; i++) {
        std::string n = "e" + std::to_string(i);
        switch (i % 5) {
        case 0: ids.push_back(b.createDataArray(n, "t", nix::DataType::Double, nix::NDSize({1})).id()); break;
        case 1: ids.push_back(b.createTag(n, "t", {0.0}).id()); break;
        case 2: ids.push_back(s.createProperty(n, nix::DataType::Double).id()); break;
        case 3: ids.push_back(b.createSource(n, "t").id()); break;
        default: ids.push_back(s.createSection(n, "t").id()); break;
        }
    }
    for (size_t i = 0; i < k; i++) ids.push_back(nix::util::createId());
    f.close();
    return ids;
}

static std::vector<std::string> splitLines(const std::string &s) {
    std::vector<std::string> v;
    std::istringstream is(s);
    std::string l;
    while (std::getline(is, l)) if (!l.empty()) v.push_back(l);
    return v;
}

static void c12sched(Tape &t, Ctx &ctx) {
    size_t P = 2 + t.below(7);
    bool viaFork = t.flip();
    size_t k = 1 + t.below(6);
    long base = 1700000000 + static_cast<long>(t.below(1000000));
    std::vector<long> start(P);
    std::set<long> distinctStarts;
    for (size_t i = 0; i < P; i++) {
        switch (t.pick({5, 2, 1, 1})) {
        case 0: start[i] = base; break;
        case 1: start[i] = base + 1; break;
        case 2: start[i] = base - 1; break;
        default: start[i] = base + 2 + static_cast<long>(t.below(100000)); break;
        }
        distinctStarts.insert(start[i]);
    }
    bool realClock = t.chance(15); // no fake clock at all: processes launched back to back
    bool parentDrewIds = true;      // this process has created files / ids long before (template files, earlier cases)
    ctx.trace << "C12 schedule: " << P << " processes via " << (viaFork ? "fork" : "exec") << ", " << k << " entities each, start seconds";
    for (size_t i = 0; i < P; i++) ctx.trace << " " << (realClock ? 0 : start[i] - base);
    if (realClock) ctx.trace << " (real clock)";
    if (viaFork) { std::string warm = nix::util::createId(); (void)warm; }
    std::vector<std::vector<std::string>> all(P);
    if (viaFork) {
        std::vector<pid_t> pids(P);
        for (size_t i = 0; i < P; i++) {
            std::string out = ctx.path("ids_" + std::to_string(i) + ".txt");
            unlink(out.c_str());
            fflush(nullptr);
            pid_t pid = fork();
            if (pid == 0) {
                int rc = 0;
                try {
                    if (!realClock) g_fake_time = start[i];
                    std::vector<std::string> ids = idWorker(ctx.path("sched_" + std::to_string(i) + ".nix"), k);
                    std::ofstream o(out);
                    for (auto &x : ids) o << x << "\n";
                } catch (...) { rc = 7; }
                _exit(rc);
            }
            pids[i] = pid;
        }
        for (size_t i = 0; i < P; i++) {
            int st = 0;
            waitpid(pids[i], &st, 0);
            VCHECK(WIFEXITED(st) && WEXITSTATUS(st) == 0, "forked id worker " << i << " failed (status " << st << ")");
            all[i] = splitLines(slurp(ctx.path("ids_" + std::to_string(i) + ".txt")));
        }
    } else {
        std::vector<FILE *> pipes(P);
        for (size_t i = 0; i < P; i++) {
            std::string cmd = "ASAN_OPTIONS=detect_leaks=0 ";
            if (!realClock) cmd += "VERIF_FAKE_TIME=" + std::to_string(start[i]) + " ";
            cmd += "'" + g_self + "' idworker '" + ctx.path("sched_" + std::to_string(i) + ".nix") + "' " + std::to_string(k) + " 2>/dev/null";
            pipes[i] = popen(cmd.c_str(), "r");
            VCHECK(pipes[i] != nullptr, "harness: popen failed");
        }
        for (size_t i = 0; i < P; i++) {
            std::string out;
            char buf[4096];
            size_t n;
            while ((n = fread(buf, 1, sizeof buf, pipes[i])) > 0) out.append(buf, n);
            int rc = pclose(pipes[i]);
            VCHECK(rc == 0, "id worker process " << i << " failed (status " << rc << ")");
            all[i] = splitLines(out);
        }
    }
    std::map<std::string, size_t> owner;
    for (size_t i = 0; i < P; i++) {
        VCHECK(all[i].size() == 3 + 2 * k, "harness: id worker " << i << " reported " << all[i].size() << " ids, expected " << 3 + 2 * k);
        for (size_t j = 0; j < all[i].size(); j++) {
            const std::string &id = all[i][j];
            VCHECK(wellFormedUUID(id), "process " << i << ": id #" << j << " " << show(id) << " is not a well-formed UUID");
            auto ins = owner.emplace(id, i);
            VCHECK(ins.second, "the id " << id << " (id #" << j << " of process " << i << ", start second +" << (start[i] - base) << ") was also created by process "
                                         << ins.first->second << " (start second +" << (start[ins.first->second] - base) << ")");
        }
    }
    (void)parentDrewIds;
    ctx.nontrivial = realClock || distinctStarts.size() < P || viaFork;
    ctx.count(viaFork ? "schedule_fork" : "schedule_exec");
    if (distinctStarts.size() < P) ctx.count("schedule_with_equal_start_second");
    if (realClock) ctx.count("schedule_real_clock");
    ctx.count("ids_compared", owner.size());
}

static void c12(Tape &t, Ctx &ctx) {
    if (t.pick({1, 1}) == 0) { ctx.count("history_cases"); c12hist(t, ctx); }
    else { ctx.count("schedule_cases"); c12sched(t, ctx); }
}

// =======================================================================================
// C04 - deletion leaves no dangling reference and harms nothing else
// =======================================================================================
static bool pruneFind(const Ent &e, const std::string &victim, std::set<std::string> &removed) {
    if (e.id == victim && e.kind != "file") {
        walk(e, [&](const Ent &x) { if (!x.id.empty()) removed.insert(x.id); });
        return true;
    }
    for (auto &k : e.kids)
        for (auto &c : k.second)
            if (pruneFind(c, victim, removed)) return true;
    return false;
}
static void pruneApply(Ent &e, const std::set<std::string> &removed) {
    for (auto &k : e.kids) {
        std::vector<Ent> keep;
        for (auto &c : k.second) {
            if (!c.id.empty() && c.kind != "dim" && removed.count(c.id)) continue;
            keep.push_back(c);
        }
        k.second.swap(keep);
        for (auto &c : k.second) pruneApply(c, removed);
    }
    for (auto &l : e.links) if (removed.count(l.second)) l.second = ABSENT;
    for (auto &l : e.lists) {
        std::vector<std::string> keep;
        for (auto &x : l.second) if (!removed.count(x)) keep.push_back(x);
        l.second.swap(keep);
    }
}

static size_t holdersOf(const Ent &s, const std::set<std::string> &removed, std::set<std::string> &holderKinds) {
    size_t n = 0;
    walk(s, [&](const Ent &e) {
        if (!e.id.empty() && removed.count(e.id)) return;
        for (auto &l : e.links) if (removed.count(l.second)) { n++; holderKinds.insert(e.kind + "." + l.first); }
        for (auto &l : e.lists) for (auto &x : l.second) if (removed.count(x)) { n++; holderKinds.insert(e.kind + "." + l.first); }
    });
    return n;
}

static void c04(Tape &t, Ctx &ctx) {
    Files fs(ctx, "c04");
    Prog p(t, ctx.trace, Profile::Valid);
    ctx.trace << "C04: ";
    p.start(fs.a, fs.b);
    if (!t.chance(40)) { furnishFile(p.f); ctx.trace << "(furnished) "; }
    Ent prev = snapshot(p.f);
    size_t nops = 8 + t.below(73);
    bool nontrivial = false;
    size_t checked = 0;
    for (size_t i = 0; i < nops; i++) {
        if (i > 0 && t.exhausted()) break;
        size_t na = p.deadArrays.size(), ns = p.deadSections.size(), nso = p.deadSources.size(), nt = p.deadTags.size(), nf = p.deadFrames.size();
        StepInfo si = p.step();
        Ent now = snapshot(p.f);
        if (si.is_delete && !si.threw && si.returned_true && !si.victim_id.empty()) {
            std::set<std::string> removed;
            bool found = pruneFind(prev, si.victim_id, removed);
            VCHECK(found, "harness: victim " << si.victim_id << " of " << si.op << " not found in the previous snapshot");
            std::set<std::string> hk;
            size_t holders = holdersOf(prev, removed, hk);
            Ent expect = prev;
            pruneApply(expect, removed);
            std::string d = diff(expect, now);
            VCHECK(d.empty(), "after " << si.op << " of " << si.victim_id << " (" << removed.size() << " entities removed, " << holders
                                       << " links pointed there) the file is not the previous state minus the victim: " << d);
            // handles obtained before the deletion report themselves invalid (or throw)
            auto dead = [&](bool valid, const char *what) { VCHECK(!valid, "a handle to the deleted " << what << " still reports isValidEntity() == true"); };
            try { if (p.deadArrays.size() > na) dead(p.deadArrays.back().isValidEntity(), "data array"); } catch (const Violation &) { throw; } catch (const std::exception &) {}
            try { if (p.deadSections.size() > ns) dead(p.deadSections.back().isValidEntity(), "section"); } catch (const Violation &) { throw; } catch (const std::exception &) {}
            try { if (p.deadSources.size() > nso) dead(p.deadSources.back().isValidEntity(), "source"); } catch (const Violation &) { throw; } catch (const std::exception &) {}
            try { if (p.deadTags.size() > nt) dead(p.deadTags.back().isValidEntity(), "tag"); } catch (const Violation &) { throw; } catch (const std::exception &) {}
            try { if (p.deadFrames.size() > nf) dead(p.deadFrames.back().isValidEntity(), "data frame"); } catch (const Violation &) { throw; } catch (const std::exception &) {}
            checked++;
            ctx.count("delete:" + si.op);
            if (hk.size() >= 2 || removed.size() >= 3) nontrivial = true;
            if (holders) ctx.count("victim_with_holders");
        }
        prev = std::move(now);
    }
    p.finish();
    ctx.nontrivial = nontrivial;
    ctx.count("deletions_checked", checked);
}

} // namespace tp
