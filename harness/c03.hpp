// c03.hpp - C03: names unique per parent; name / id / index lookups, has-queries, counts and
// enumeration agree; index order is creation order and survives deletes and reopen.
//
// Oracle, evaluated after EVERY step of a generated program, for EVERY container of the file
// (13 kinds: blocks, sections, sub sections, properties, arrays, frames, tags, multi tags, groups,
// sources, sub sources, features, tag/multi-tag references, group members x4, entity sources):
//   * agreement (live file): count == |enumeration| ; enumeration[i] == get(i) ; ids pairwise distinct,
//     names pairwise distinct ; get(id), get(name) return that very entity ; has(id), has(name),
//     has(handle) are true ; get(count) gives nothing ; members that disappeared since the previous
//     step are no longer found by id (nor by name unless the name is in use again).
//   * order (previous snapshot vs. this one): the survivors keep their relative order and every
//     new member comes after all survivors (creation order; a re-created name goes to the end).
#pragma once
#include "prog.hpp"

namespace c03 {

using namespace vf;

typedef std::vector<std::pair<std::string, std::string>> Members; // (id, name) in index order

struct PrevIndex {
    std::map<std::string, Members> by_key;
};

static void indexSnapshot(const Ent &e, PrevIndex &ix) {
    std::string self = e.kind == "file" ? std::string("file") : e.id;
    for (auto &k : e.kids) {
        if (k.first == "dimensions") continue;
        Members m;
        for (auto &c : k.second) m.emplace_back(c.id, c.name);
        ix.by_key[self + "/" + k.first] = m;
        for (auto &c : k.second) indexSnapshot(c, ix);
    }
    for (auto &l : e.lists) {
        Members m;
        for (auto &x : l.second) m.emplace_back(x, "");
        ix.by_key[self + "/*" + l.first] = m;
    }
}

struct Checker {
    Ctx &ctx;
    const PrevIndex *prev;
    std::string after; // description of the step for messages
    bool special_seen = false;
    size_t containers = 0, members = 0;

    static bool special(const std::string &n) {
        return n == ".." || n == " a" || n == "a " || n == "A" || n.find('-') != std::string::npos || n.find('\xc3') != std::string::npos ||
               n.find('\xce') != std::string::npos || n.find('%') != std::string::npos || n.find('.') != std::string::npos;
    }

    // generic agreement check for one container
    template <typename E, typename NameFn>
    void view(const std::string &key, const std::string &where, size_t count, std::function<E(size_t)> at, std::function<E(const std::string &)> byKey,
              std::function<bool(const std::string &)> hasKey, std::function<bool(const E &)> hasEnt, std::function<std::vector<E>()> all, bool byName,
              NameFn nameOf) {
        containers++;
        std::vector<E> v = all();
        VCHECK(v.size() == count, after << ": " << where << ": count() = " << count << " but the enumeration has " << v.size() << " entries");
        std::set<std::string> ids, names;
        for (size_t i = 0; i < count; i++) {
            E e = at(i);
            VCHECK(!!e, after << ": " << where << ": get(" << i << ") returns nothing although count() = " << count);
            std::string id = e.id();
            std::string nm = nameOf(e);
            members++;
            VCHECK(v[i].id() == id, after << ": " << where << ": enumeration[" << i << "] has id " << v[i].id() << " but get(" << i << ") has id " << id);
            VCHECK(ids.insert(id).second, after << ": " << where << ": two members share the id " << id);
            if (byName) {
                VCHECK(names.insert(nm).second, after << ": " << where << ": two members share the name " << show(nm));
                if (special(nm)) special_seen = true;
            }
            E x = byKey(id);
            VCHECK(!!x, after << ": " << where << ": member " << i << " (" << show(nm) << ") is not found by its id " << id);
            VCHECK(x.id() == id, after << ": " << where << ": lookup by id " << id << " returns the entity with id " << x.id());
            VCHECK(hasKey(id), after << ": " << where << ": has(" << id << ") is false for member " << i << " (" << show(nm) << ")");
            VCHECK(hasEnt(e), after << ": " << where << ": has(handle) is false for member " << i << " (" << show(nm) << ")");
            if (byName) {
                E y = byKey(nm);
                VCHECK(!!y, after << ": " << where << ": member " << i << " is not found by its name " << show(nm));
                VCHECK(y.id() == id, after << ": " << where << ": lookup by name " << show(nm) << " returns id " << y.id() << ", get(" << i << ") has id " << id);
                VCHECK(nameOf(y) == nm, after << ": " << where << ": lookup by name " << show(nm) << " returns an entity named " << show(nameOf(y)));
                VCHECK(nameOf(x) == nm, after << ": " << where << ": lookup by id returns an entity named " << show(nameOf(x)) << ", get(" << i << ") is named " << show(nm));
                VCHECK(hasKey(nm), after << ": " << where << ": has(" << show(nm) << ") is false for member " << i);
            }
        }
        // one past the end: nothing (none or an exception)
        bool past = false;
        try {
            E e = at(count);
            past = !!e;
        } catch (const std::exception &) {
        }
        VCHECK(!past, after << ": " << where << ": get(" << count << ") returns an entity although count() = " << count);
        // members that disappeared since the previous step
        if (prev) {
            auto it = prev->by_key.find(key);
            if (it != prev->by_key.end()) {
                for (auto &m : it->second) {
                    if (ids.count(m.first)) continue;
                    bool h = true;
                    try { h = hasKey(m.first); } catch (const std::exception &) { h = false; }
                    VCHECK(!h, after << ": " << where << ": has(" << m.first << ") is still true for a member that is no longer enumerated");
                    bool g = true;
                    try { g = !!byKey(m.first); } catch (const std::exception &) { g = false; }
                    VCHECK(!g, after << ": " << where << ": get(" << m.first << ") still returns a member that is no longer enumerated");
                    if (byName && !m.second.empty() && !names.count(m.second)) {
                        bool hn = true;
                        try { hn = hasKey(m.second); } catch (const std::exception &) { hn = false; }
                        VCHECK(!hn, after << ": " << where << ": has(" << show(m.second) << ") is still true although no member has that name");
                    }
                }
            }
        }
    }

    template <typename P> void sourcesOfEntity(const P &p, const std::string &where) {
        view<nix::Source>(p.id() + "/*sources", where + ".sources(attached)", p.sourceCount(), [&](size_t i) { return p.getSource(i); },
                          [&](const std::string &k) { return p.getSource(k); }, [&](const std::string &k) { return p.hasSource(k); },
                          [&](const nix::Source &s) { return p.hasSource(s); }, [&] { return p.sources(); }, false, [](const nix::Source &s) { return s.name(); });
    }

    template <typename T> void tagViews(const T &t, const std::string &where) {
        view<nix::DataArray>(t.id() + "/*references", where + ".references", t.referenceCount(), [&](size_t i) { return t.getReference(i); },
                             [&](const std::string &k) { return t.getReference(k); }, [&](const std::string &k) { return t.hasReference(k); },
                             [&](const nix::DataArray &a) { return t.hasReference(a); }, [&] { return t.references(); }, false,
                             [](const nix::DataArray &a) { return a.name(); });
        view<nix::Feature>(t.id() + "/features", where + ".features", t.featureCount(), [&](size_t i) { return t.getFeature(i); },
                           [&](const std::string &k) { return t.getFeature(k); }, [&](const std::string &k) { return t.hasFeature(k); },
                           [&](const nix::Feature &f) { return t.hasFeature(f); }, [&] { return t.features(); }, false,
                           [](const nix::Feature &) { return std::string(); });
        sourcesOfEntity(t, where);
    }

    void source(const nix::Source &s, const std::string &where) {
        view<nix::Source>(s.id() + "/sources", where + ".sources", s.sourceCount(), [&](size_t i) { return s.getSource(i); },
                          [&](const std::string &k) { return s.getSource(k); }, [&](const std::string &k) { return s.hasSource(k); },
                          [&](const nix::Source &c) { return s.hasSource(c); }, [&] { return s.sources(); }, true, [](const nix::Source &c) { return c.name(); });
        size_t n = s.sourceCount();
        for (size_t i = 0; i < n; i++) source(s.getSource(i), where + "/" + show(s.getSource(i).name()));
    }

    void section(const nix::Section &s, const std::string &where) {
        view<nix::Section>(s.id() + "/sections", where + ".sections", s.sectionCount(), [&](size_t i) { return s.getSection(i); },
                           [&](const std::string &k) { return s.getSection(k); }, [&](const std::string &k) { return s.hasSection(k); },
                           [&](const nix::Section &c) { return s.hasSection(c); }, [&] { return s.sections(); }, true, [](const nix::Section &c) { return c.name(); });
        view<nix::Property>(s.id() + "/properties", where + ".properties", s.propertyCount(), [&](size_t i) { return s.getProperty(i); },
                            [&](const std::string &k) { return s.getProperty(k); }, [&](const std::string &k) { return s.hasProperty(k); },
                            [&](const nix::Property &p) { return s.hasProperty(p); }, [&] { return s.properties(); }, true,
                            [](const nix::Property &p) { return p.name(); });
        size_t n = s.sectionCount();
        for (size_t i = 0; i < n; i++) section(s.getSection(i), where + "/" + show(s.getSection(i).name()));
    }

    void block(const nix::Block &b, const std::string &where) {
        view<nix::DataArray>(b.id() + "/arrays", where + ".dataArrays", b.dataArrayCount(), [&](size_t i) { return b.getDataArray(i); },
                             [&](const std::string &k) { return b.getDataArray(k); }, [&](const std::string &k) { return b.hasDataArray(k); },
                             [&](const nix::DataArray &a) { return b.hasDataArray(a); }, [&] { return b.dataArrays(); }, true,
                             [](const nix::DataArray &a) { return a.name(); });
        view<nix::DataFrame>(b.id() + "/frames", where + ".dataFrames", b.dataFrameCount(), [&](size_t i) { return b.getDataFrame(i); },
                             [&](const std::string &k) { return b.getDataFrame(k); }, [&](const std::string &k) { return b.hasDataFrame(k); },
                             [&](const nix::DataFrame &a) { return b.hasDataFrame(a); }, [&] { return b.dataFrames(); }, true,
                             [](const nix::DataFrame &a) { return a.name(); });
        view<nix::Tag>(b.id() + "/tags", where + ".tags", b.tagCount(), [&](size_t i) { return b.getTag(i); }, [&](const std::string &k) { return b.getTag(k); },
                       [&](const std::string &k) { return b.hasTag(k); }, [&](const nix::Tag &a) { return b.hasTag(a); }, [&] { return b.tags(); }, true,
                       [](const nix::Tag &a) { return a.name(); });
        view<nix::MultiTag>(b.id() + "/mtags", where + ".multiTags", b.multiTagCount(), [&](size_t i) { return b.getMultiTag(i); },
                            [&](const std::string &k) { return b.getMultiTag(k); }, [&](const std::string &k) { return b.hasMultiTag(k); },
                            [&](const nix::MultiTag &a) { return b.hasMultiTag(a); }, [&] { return b.multiTags(); }, true,
                            [](const nix::MultiTag &a) { return a.name(); });
        view<nix::Group>(b.id() + "/groups", where + ".groups", b.groupCount(), [&](size_t i) { return b.getGroup(i); },
                         [&](const std::string &k) { return b.getGroup(k); }, [&](const std::string &k) { return b.hasGroup(k); },
                         [&](const nix::Group &a) { return b.hasGroup(a); }, [&] { return b.groups(); }, true, [](const nix::Group &a) { return a.name(); });
        view<nix::Source>(b.id() + "/sources", where + ".sources", b.sourceCount(), [&](size_t i) { return b.getSource(i); },
                          [&](const std::string &k) { return b.getSource(k); }, [&](const std::string &k) { return b.hasSource(k); },
                          [&](const nix::Source &a) { return b.hasSource(a); }, [&] { return b.sources(); }, true, [](const nix::Source &a) { return a.name(); });
        for (size_t i = 0, n = b.sourceCount(); i < n; i++) source(b.getSource(i), where + "/source " + show(b.getSource(i).name()));
        for (size_t i = 0, n = b.dataArrayCount(); i < n; i++) sourcesOfEntity(b.getDataArray(i), where + "/array " + show(b.getDataArray(i).name()));
        for (size_t i = 0, n = b.dataFrameCount(); i < n; i++) sourcesOfEntity(b.getDataFrame(i), where + "/frame " + show(b.getDataFrame(i).name()));
        for (size_t i = 0, n = b.tagCount(); i < n; i++) tagViews(b.getTag(i), where + "/tag " + show(b.getTag(i).name()));
        for (size_t i = 0, n = b.multiTagCount(); i < n; i++) tagViews(b.getMultiTag(i), where + "/mtag " + show(b.getMultiTag(i).name()));
        for (size_t i = 0, n = b.groupCount(); i < n; i++) {
            nix::Group g = b.getGroup(i);
            std::string w = where + "/group " + show(g.name());
            view<nix::DataArray>(g.id() + "/*arrays", w + ".dataArrays", g.dataArrayCount(), [&](size_t k) { return g.getDataArray(k); },
                                 [&](const std::string &k) { return g.getDataArray(k); }, [&](const std::string &k) { return g.hasDataArray(k); },
                                 [&](const nix::DataArray &a) { return g.hasDataArray(a); }, [&] { return g.dataArrays(); }, true,
                                 [](const nix::DataArray &a) { return a.name(); });
            view<nix::DataFrame>(g.id() + "/*frames", w + ".dataFrames", g.dataFrameCount(), [&](size_t k) { return g.getDataFrame(k); },
                                 [&](const std::string &k) { return g.getDataFrame(k); }, [&](const std::string &k) { return g.hasDataFrame(k); },
                                 [&](const nix::DataFrame &a) { return g.hasDataFrame(a); }, [&] { return g.dataFrames(); }, true,
                                 [](const nix::DataFrame &a) { return a.name(); });
            view<nix::Tag>(g.id() + "/*tags", w + ".tags", g.tagCount(), [&](size_t k) { return g.getTag(k); }, [&](const std::string &k) { return g.getTag(k); },
                           [&](const std::string &k) { return g.hasTag(k); }, [&](const nix::Tag &a) { return g.hasTag(a); }, [&] { return g.tags(); }, true,
                           [](const nix::Tag &a) { return a.name(); });
            view<nix::MultiTag>(g.id() + "/*mtags", w + ".multiTags", g.multiTagCount(), [&](size_t k) { return g.getMultiTag(k); },
                                [&](const std::string &k) { return g.getMultiTag(k); }, [&](const std::string &k) { return g.hasMultiTag(k); },
                                [&](const nix::MultiTag &a) { return g.hasMultiTag(a); }, [&] { return g.multiTags(); }, true,
                                [](const nix::MultiTag &a) { return a.name(); });
            sourcesOfEntity(g, w);
            // entities of the block that are NOT members are not found in the group by name, by id or by handle
            auto nonMember = [&](const std::string &what, const std::string &nm, const std::string &id, bool hasName, bool hasId, bool hasHandle, bool got) {
                VCHECK(!hasName, after << ": " << w << ": has" << what << "(" << show(nm) << ") is true for an entity that is not a member");
                VCHECK(!hasId, after << ": " << w << ": has" << what << "(" << id << ") is true for an entity that is not a member");
                VCHECK(!hasHandle, after << ": " << w << ": has" << what << "(handle) is true for an entity that is not a member");
                VCHECK(!got, after << ": " << w << ": get" << what << "(" << show(nm) << ") returns something for an entity that is not a member");
            };
            std::set<std::string> ma, mt_, mm, mf;
            for (auto &x : g.dataArrays()) ma.insert(x.id());
            for (auto &x : g.tags()) mt_.insert(x.id());
            for (auto &x : g.multiTags()) mm.insert(x.id());
            for (auto &x : g.dataFrames()) mf.insert(x.id());
            // a name that another member carries is of course found: only names no member has are asked for
            auto nameTaken = [&](const std::string &nm, const char kind) {
                if (kind == 'a') { for (auto &x : g.dataArrays()) if (x.name() == nm) return true; }
                if (kind == 't') { for (auto &x : g.tags()) if (x.name() == nm) return true; }
                if (kind == 'm') { for (auto &x : g.multiTags()) if (x.name() == nm) return true; }
                if (kind == 'f') { for (auto &x : g.dataFrames()) if (x.name() == nm) return true; }
                return false;
            };
            for (auto &x : b.dataArrays()) if (!ma.count(x.id()) && !nameTaken(x.name(), 'a')) nonMember("DataArray", x.name(), x.id(), g.hasDataArray(x.name()), g.hasDataArray(x.id()), g.hasDataArray(x), !!g.getDataArray(x.name()));
            for (auto &x : b.tags()) if (!mt_.count(x.id()) && !nameTaken(x.name(), 't')) nonMember("Tag", x.name(), x.id(), g.hasTag(x.name()), g.hasTag(x.id()), g.hasTag(x), !!g.getTag(x.name()));
            for (auto &x : b.multiTags()) if (!mm.count(x.id()) && !nameTaken(x.name(), 'm')) nonMember("MultiTag", x.name(), x.id(), g.hasMultiTag(x.name()), g.hasMultiTag(x.id()), g.hasMultiTag(x), !!g.getMultiTag(x.name()));
            for (auto &x : b.dataFrames()) if (!mf.count(x.id()) && !nameTaken(x.name(), 'f')) nonMember("DataFrame", x.name(), x.id(), g.hasDataFrame(x.name()), g.hasDataFrame(x.id()), g.hasDataFrame(x), !!g.getDataFrame(x.name()));
        }
    }

    void file(const nix::File &f) {
        view<nix::Block>("file/blocks", "File.blocks", f.blockCount(), [&](size_t i) { return f.getBlock(i); }, [&](const std::string &k) { return f.getBlock(k); },
                         [&](const std::string &k) { return f.hasBlock(k); }, [&](const nix::Block &b) { return f.hasBlock(b); }, [&] { return f.blocks(); }, true,
                         [](const nix::Block &b) { return b.name(); });
        view<nix::Section>("file/sections", "File.sections", f.sectionCount(), [&](size_t i) { return f.getSection(i); },
                           [&](const std::string &k) { return f.getSection(k); }, [&](const std::string &k) { return f.hasSection(k); },
                           [&](const nix::Section &s) { return f.hasSection(s); }, [&] { return f.sections(); }, true, [](const nix::Section &s) { return s.name(); });
        for (size_t i = 0, n = f.blockCount(); i < n; i++) block(f.getBlock(i), "block " + show(f.getBlock(i).name()));
        for (size_t i = 0, n = f.sectionCount(); i < n; i++) section(f.getSection(i), "section " + show(f.getSection(i).name()));
    }
};

// order rule between two snapshots: survivors keep their relative order, new members follow all survivors
static void orderRule(const PrevIndex &prev, const PrevIndex &now, bool skipLists, const std::string &after) {
    for (auto &kv : now.by_key) {
        bool isList = kv.first.find("/*") != std::string::npos;
        if (isList && skipLists) continue;
        auto it = prev.by_key.find(kv.first);
        if (it == prev.by_key.end()) continue;
        std::set<std::string> was, is;
        for (auto &m : it->second) was.insert(m.first);
        for (auto &m : kv.second) is.insert(m.first);
        std::vector<std::string> a, b;
        for (auto &m : it->second) if (is.count(m.first)) a.push_back(m.first);
        bool newSeen = false;
        for (auto &m : kv.second) {
            if (was.count(m.first)) {
                b.push_back(m.first);
                VCHECK(!newSeen, after << ": container " << kv.first << ": the surviving member " << m.first << " (" << show(m.second)
                                       << ") is enumerated after a member that was created later");
            } else newSeen = true;
        }
        VCHECK(a == b, after << ": container " << kv.first << ": the relative order of the surviving members changed");
    }
}

static void body(Tape &t, Ctx &ctx) {
    std::string pa = ctx.path("c03.nix"), pb = ctx.path("c03_other.nix");
    Prog p(t, ctx.trace, Profile::Valid);
    ctx.trace << "C03: ";
    p.start(pa, pb);
    if (t.chance(45)) { furnishFile(p.f); ctx.trace << "(furnished) "; }
    PrevIndex prev;
    indexSnapshot(snapshot(p.f), prev);
    size_t nops = 6 + t.below(70);
    size_t creates = 0, removals = 0, dupRefused = 0;
    bool special = false;
    for (size_t i = 0; i < nops; i++) {
        if (i > 0 && t.exhausted()) break;
        StepInfo si = p.step();
        if (si.is_create && !si.threw) creates++;
        if (si.is_create && si.threw && si.extype.find("DuplicateName") != std::string::npos) dupRefused++;
        if ((si.is_delete || si.is_unlink) && !si.threw && si.returned_true) removals++;
        Checker ck{ctx, &prev, "after step " + std::to_string(i) + " (" + si.op + (si.threw ? ", threw" : "") + ")"};
        ck.file(p.f);
        special = special || ck.special_seen;
        PrevIndex now;
        indexSnapshot(snapshot(p.f), now);
        orderRule(prev, now, si.order_reset, ck.after);
        prev = std::move(now);
        ctx.count("containers_checked", ck.containers);
        ctx.count("members_checked", ck.members);
    }
    // final close + reopen (read-only): same order, same agreement
    auto nfiles = [] { return (long)H5Fget_obj_count(static_cast<hid_t>(H5F_OBJ_ALL), H5F_OBJ_FILE); };
    bool dg = getenv("VERIF_LEAKDIAG") != nullptr;
    if (dg) fprintf(stderr, "DG before close: files=%ld\n", nfiles());
    p.f.close();
    if (dg) fprintf(stderr, "DG after close: files=%ld\n", nfiles());
    {
        nix::File ro = nix::File::open(pa, nix::FileMode::ReadOnly);
        Checker ck{ctx, &prev, "after the final reopen"};
        ck.file(ro);
        PrevIndex now;
        indexSnapshot(snapshot(ro), now);
        orderRule(prev, now, false, ck.after);
        VCHECK(now.by_key == prev.by_key, "after the final reopen: the members or their order differ from before close");
        ro.close();
    }
    if (dg) fprintf(stderr, "DG after ro close: files=%ld\n", nfiles());
    p.finish();
    if (dupRefused) ctx.count("duplicate_name_refused", dupRefused);
    ctx.nontrivial = creates >= 3 && removals >= 1 && special;
}

} // namespace c03
