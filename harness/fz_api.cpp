// fz_api - C16 under libFuzzer: the bytes are read as little-endian 32 bit words and fed to the same tape
// decoder (c16::body) that rapidcheck drives in h_tree, so coverage feedback steers the structured generator.
// A violation of the oracle (or any sanitizer report / signal) kills the process; libFuzzer keeps the input.
#include "common.hpp"
#include "newguard.hpp"
#include "nixutil.hpp"
#include "c16.hpp"

using namespace vf;

static std::string g_work;
static Stats g_stats;

static void cleanup() {
    if (!g_work.empty()) rm_rf(g_work);
}

extern "C" int LLVMFuzzerInitialize(int *, char ***) {
    H5Eset_auto2(H5E_DEFAULT, nullptr, nullptr);
    char tmpl[] = "/dev/shm/vf_fz_XXXXXX";
    char *d = mkdtemp(tmpl);
    g_work = d ? d : "/dev/shm";
    atexit(cleanup);
    return 0;
}

extern "C" int LLVMFuzzerTestOneInput(const uint8_t *data, size_t size) {
    std::vector<uint32_t> words(size / 4);
    for (size_t i = 0; i < words.size(); i++)
        words[i] = static_cast<uint32_t>(data[4 * i]) | (static_cast<uint32_t>(data[4 * i + 1]) << 8) | (static_cast<uint32_t>(data[4 * i + 2]) << 16) |
                   (static_cast<uint32_t>(data[4 * i + 3]) << 24);
    static uint64_t serial = 0;
    for (auto &p : Ctx::created()) unlink(p.c_str());
    Ctx::created().clear();
    Ctx ctx;
    ctx.serial = ++serial;
    ctx.work = g_work;
    ctx.stats = &g_stats;
    g_stats.recording = false;
    Tape t(words);
    try {
        c16::body(t, ctx);
    } catch (const Violation &v) {
        fprintf(stderr, "C16 VIOLATION: %s\nTRACE: %s\n", v.what(), ctx.trace.str().c_str());
        fflush(stderr);
        __builtin_trap();
    } catch (const std::exception &e) {
        fprintf(stderr, "C16 VIOLATION: exception escaped the case body: %s\nTRACE: %s\n", e.what(), ctx.trace.str().c_str());
        fflush(stderr);
        __builtin_trap();
    }
    return 0;
}
