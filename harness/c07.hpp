// c07.hpp - position -> index conversion against the definition (brute-force search over the axis)
#pragma once

namespace c07 {

static DimFixture g_fx;

struct Query {
    double p;
    bool near_coord; // on or within one ulp of a coordinate
};

// position classes around coordinate i of the axis
static Query genPosition(Tape &t, const Axis &a, uint64_t max_index, std::ostream &tr) {
    Query q{0.0, false};
    uint64_t n = a.bounded() ? a.n() : max_index + 1;
    uint64_t i = 0;
    if (n > 0) {
        switch (t.pick({3, 3, 2})) {
        case 0: i = t.below(static_cast<uint32_t>(std::min<uint64_t>(n, 12))); break;
        case 1: i = t.below(static_cast<uint32_t>(n)); break;
        default: i = n - 1 - t.below(static_cast<uint32_t>(std::min<uint64_t>(n, 3))); break;
        }
    }
    double x = n > 0 ? a.coord(i) : 0.0;
    double xn = (n > 0 && (!a.bounded() || i + 1 < n)) ? a.coord(i + 1) : x + 1.0;
    double x0 = n > 0 ? a.coord(0) : 0.0;
    double step = xn - x;
    switch (t.pick({6, 3, 3, 3, 2, 2, 1, 1, 1})) {
    case 0: q.p = x; q.near_coord = n > 0; tr << "on(" << i << ")"; break;
    case 1: q.p = next_up(x); q.near_coord = n > 0; tr << "ulp_above(" << i << ")"; break;
    case 2: q.p = next_down(x); q.near_coord = n > 0; tr << "ulp_below(" << i << ")"; break;
    case 3: q.p = x + step * 0.5; tr << "mid(" << i << ")"; break;
    case 4: q.p = x + step * t.unit(); tr << "between(" << i << ")"; break;
    case 5: q.p = x0 - std::fabs(step) * (0.25 + 3.0 * t.unit()); tr << "below_first"; break;
    case 6: q.p = next_down(x0); q.near_coord = n > 0; tr << "ulp_below_first"; break;
    case 7:
        if (a.bounded() && n > 0) { q.p = a.coord(n - 1) + std::fabs(step) * (0.5 + 5.0 * t.unit()); tr << "beyond_last"; }
        else { q.p = x + step * 0.25; tr << "quarter(" << i << ")"; }
        break;
    default:
        if (a.bounded()) {
            static const double far[] = {1e9, 1e19, 1e20, 1.8446744073709552e19, 1e300, -1e300, DBL_MAX, 9.3e18};
            q.p = far[t.below(8)];
            tr << "far";
        } else { q.p = x - step * 0.25; tr << "quarter_before(" << i << ")"; }
        break;
    }
    tr << "=" << dstr(q.p) << " ";
    return q;
}

static bool dyadic(double v) {
    // exactly representable with few mantissa bits (k / 2^20 for small k)
    double s = v * 1048576.0;
    return std::fabs(s) < 1e15 && s == std::floor(s);
}

typedef boost::optional<nix::ndsize_t> OptIdx;
typedef std::vector<boost::optional<std::pair<nix::ndsize_t, nix::ndsize_t>>> OptPairs;
static OptIdx utilIdx(const nix::SampledDimension &d, double p, nix::PositionMatch m) { return nix::util::positionToIndex(p, "none", m, d); }
static OptIdx utilIdx(const nix::RangeDimension &d, double p, nix::PositionMatch m) { return nix::util::positionToIndex(p, "none", m, d); }
static OptIdx utilIdx(const nix::SetDimension &d, double p, nix::PositionMatch m) { return nix::util::positionToIndex(p, m, d); }
static OptIdx utilIdx(const nix::DataFrameDimension &d, double p, nix::PositionMatch m) { return nix::util::positionToIndex(p, m, d); }
static OptPairs utilPairs(const nix::SampledDimension &d, const std::vector<double> &s, const std::vector<double> &e, nix::RangeMatch rm) {
    return nix::util::positionToIndex(s, e, std::vector<std::string>(s.size(), "none"), rm, d);
}
static OptPairs utilPairs(const nix::RangeDimension &d, const std::vector<double> &s, const std::vector<double> &e, nix::RangeMatch rm) {
    return nix::util::positionToIndex(s, e, std::vector<std::string>(s.size(), "none"), rm, d);
}
static OptPairs utilPairs(const nix::SetDimension &d, const std::vector<double> &s, const std::vector<double> &e, nix::RangeMatch rm) {
    return nix::util::positionToIndex(s, e, rm, d);
}
static OptPairs utilPairs(const nix::DataFrameDimension &d, const std::vector<double> &s, const std::vector<double> &e, nix::RangeMatch rm) {
    return nix::util::positionToIndex(s, e, rm, d);
}

typedef boost::optional<std::pair<nix::ndsize_t, nix::ndsize_t>> OptPair;
template <typename Dim> static OptPair scalarPair(const Dim &d, double s, double e, nix::RangeMatch rm) { return d.indexOf(s, e, rm); }
static OptPair scalarPair(const nix::RangeDimension &d, double s, double e, nix::RangeMatch rm) { return d.indexOf(s, e, std::vector<double>(), rm); }

template <typename Dim> static void checkScalar(Dim &dim, const nix::Dimension &generic, const Axis &a, const Query &q, Ctx &ctx, bool &dep_mode) {
    for (nix::PositionMatch m : ALL_PM) {
        bool ok;
        auto ref = refIndex(a, q.p, m, ok);
        if (!ok) {
            ctx.count("excluded_outside_window");
            continue;
        }
        boost::optional<nix::ndsize_t> got = dim.indexOf(q.p, m);
        boost::optional<uint64_t> g;
        if (got) g = static_cast<uint64_t>(*got);
        VCHECK(g == ref, akName(a.kind) << " indexOf(" << dstr(q.p) << ", " << pmName(m) << ") = " << optStr(g) << ", definition says "
                                        << optStr(ref) << " on axis " << a.describe());
        // the util:: overload (no unit) must agree
        boost::optional<nix::ndsize_t> got2 = utilIdx(dim, q.p, m);
        boost::optional<uint64_t> g2;
        if (got2) g2 = static_cast<uint64_t>(*got2);
        VCHECK(g2 == ref, "util::positionToIndex(" << dstr(q.p) << ", none, " << pmName(m) << ") = " << optStr(g2) << ", definition says "
                                                    << optStr(ref) << " on axis " << a.describe());
    }
    (void)dep_mode;
}

template <typename Dim> static void checkPairs(Dim &dim, const nix::Dimension &generic, const Axis &a, const std::vector<Query> &qs, Tape &t,
                                               Ctx &ctx, bool &dep_mode) {
    // pairs: scalar overload, vector overload and util:: overload, both modes
    std::vector<double> starts, ends;
    size_t np = 1 + t.below(4);
    for (size_t k = 0; k < np; k++) {
        double s = qs[t.below(static_cast<uint32_t>(qs.size()))].p;
        double e = qs[t.below(static_cast<uint32_t>(qs.size()))].p;
        if (t.chance(70) && s > e) std::swap(s, e);
        starts.push_back(s);
        ends.push_back(e);
    }
    for (nix::RangeMatch rm : {nix::RangeMatch::Inclusive, nix::RangeMatch::Exclusive}) {
        std::vector<boost::optional<std::pair<uint64_t, uint64_t>>> refs;
        bool all_ok = true;
        for (size_t k = 0; k < np; k++) {
            bool ok;
            refs.push_back(refRange(a, starts[k], ends[k], rm, ok));
            all_ok = all_ok && ok;
        }
        if (!all_ok) {
            ctx.count("excluded_outside_window");
            continue;
        }
        auto vec = dim.indexOf(starts, ends, rm);
        VCHECK(vec.size() == np, "vector indexOf returned " << vec.size() << " results for " << np << " pairs");
        auto uvec = utilPairs(dim, starts, ends, rm);
        VCHECK(uvec.size() == np, "util::positionToIndex returned " << uvec.size() << " results for " << np << " pairs");
        for (size_t k = 0; k < np; k++) {
            auto sc = scalarPair(dim, starts[k], ends[k], rm);
            boost::optional<std::pair<uint64_t, uint64_t>> g, gv, gu;
            if (sc) g = std::make_pair<uint64_t, uint64_t>(sc->first, sc->second);
            if (vec[k]) gv = std::make_pair<uint64_t, uint64_t>(vec[k]->first, vec[k]->second);
            if (uvec[k]) gu = std::make_pair<uint64_t, uint64_t>(uvec[k]->first, uvec[k]->second);
            const char *mode = rm == nix::RangeMatch::Inclusive ? "Inclusive" : "Exclusive";
            VCHECK(g == refs[k], akName(a.kind) << " indexOf(" << dstr(starts[k]) << ", " << dstr(ends[k]) << ", " << mode << ") = " << optStr(sc)
                                                << ", definition says " << optStr(refs[k]) << " on axis " << a.describe());
            VCHECK(gv == refs[k], "vector overload differs from the definition for pair " << k << " (" << dstr(starts[k]) << "," << dstr(ends[k])
                                                                                          << "," << mode << "): " << optStr(vec[k]) << " vs "
                                                                                          << optStr(refs[k]) << " on axis " << a.describe());
            VCHECK(gu == refs[k], "util::positionToIndex (pairs) differs from the definition for pair " << k << ": " << optStr(uvec[k]) << " vs "
                                                                                                        << optStr(refs[k]));
        }
    }
    // validity depends on the mode?
    for (size_t k = 0; k < np; k++) {
        bool o1, o2;
        auto a1 = refRange(a, starts[k], ends[k], nix::RangeMatch::Inclusive, o1);
        auto a2 = refRange(a, starts[k], ends[k], nix::RangeMatch::Exclusive, o2);
        if (o1 && o2 && (static_cast<bool>(a1) != static_cast<bool>(a2))) dep_mode = true;
    }
}

static void body(Tape &t, Ctx &ctx) {
    if (!g_fx.ready) g_fx.build(ctx.path("c07.nix"));
    DimFixture &fx = g_fx;
    Axis a;
    const uint64_t MAXI = 10000;
    size_t kind = t.pick({5, 3, 2, 2});
    bool nondyadic = false;
    try {
        if (kind == 0) {
            a.kind = AK::Sampled;
            a.interval = genInterval(t);
            a.offset = genOffset(t, a.interval, 2.0 * MAXI);
            fx.sd.samplingInterval(a.interval);
            fx.sd.offset(a.offset);
            nondyadic = !dyadic(a.interval) || !dyadic(a.offset);
        } else if (kind == 1) {
            a.kind = AK::Range;
            size_t n = 1 + t.below(t.chance(20) ? 64 : 10);
            double x = t.chance(50) ? 0.0 : (t.unit() - 0.5) * 200.0;
            for (size_t i = 0; i < n; i++) {
                a.ticks.push_back(x);
                double inc;
                switch (t.pick({4, 3, 2, 1})) {
                case 0: inc = 0.1; break;
                case 1: inc = 1.0; break;
                case 2: inc = 1e-3 + t.unit() * 10.0; break;
                default: inc = 0.0; break; // one ulp
                }
                double nx = x + inc;
                if (!(nx > x)) nx = next_up(x);
                x = nx;
            }
            fx.rd.ticks(a.ticks);
            nondyadic = true;
        } else if (kind == 2) {
            a.kind = AK::Set;
            a.count = t.below(13);
            std::vector<std::string> labels;
            for (uint64_t i = 0; i < a.count; i++) labels.push_back("l" + std::to_string(i));
            fx.setd.labels(labels);
        } else {
            a.kind = AK::Frame;
            a.count = t.below(13);
            fx.frame.rows(a.count);
        }
    } catch (const std::exception &e) {
        g_fx.ready = false;
        VCHECK(false, "setting up the axis " << a.describe() << " was refused: " << e.what());
    }
    ctx.trace << "C07 " << a.describe() << " q: ";
    ctx.count(std::string("axis_") + akName(a.kind));

    nix::Dimension generic = fx.array.getDimension(kind + 1);
    std::vector<Query> qs;
    size_t nq = 1 + t.below(6);
    bool near = false, dep_mode = false;
    for (size_t k = 0; k < nq; k++) {
        qs.push_back(genPosition(t, a, MAXI, ctx.trace));
        near = near || qs.back().near_coord;
    }
    for (const Query &q : qs) {
        switch (a.kind) {
        case AK::Sampled: checkScalar(fx.sd, generic, a, q, ctx, dep_mode); break;
        case AK::Range: checkScalar(fx.rd, generic, a, q, ctx, dep_mode); break;
        case AK::Set: checkScalar(fx.setd, generic, a, q, ctx, dep_mode); break;
        default: checkScalar(fx.fd, generic, a, q, ctx, dep_mode); break;
        }
    }
    switch (a.kind) {
    case AK::Sampled: checkPairs(fx.sd, generic, a, qs, t, ctx, dep_mode); break;
    case AK::Range: checkPairs(fx.rd, generic, a, qs, t, ctx, dep_mode); break;
    case AK::Set: checkPairs(fx.setd, generic, a, qs, t, ctx, dep_mode); break;
    default: checkPairs(fx.fd, generic, a, qs, t, ctx, dep_mode); break;
    }

    // axis definition and the round trip of the statement: coordinate of sample i converts back to i
    uint64_t n = a.bounded() ? a.n() : MAXI + 1;
    if (n > 0 && (a.kind == AK::Sampled || a.kind == AK::Range)) {
        uint64_t i = t.chance(50) ? t.below(static_cast<uint32_t>(std::min<uint64_t>(n, 100))) : t.below(static_cast<uint32_t>(n));
        ctx.trace << "roundtrip(" << i << ")";
        double x = a.kind == AK::Sampled ? fx.sd.positionAt(i) : fx.rd.tickAt(i);
        VCHECK(x == a.coord(i), "coordinate of index " << i << " is " << dstr(x) << ", axis definition gives " << dstr(a.coord(i)) << " on " << a.describe());
        uint64_t cnt = 1 + t.below(5);
        if (a.kind == AK::Range) cnt = std::min<uint64_t>(cnt, n - i);
        std::vector<double> ax = a.kind == AK::Sampled ? fx.sd.axis(cnt, i) : fx.rd.axis(cnt, i);
        VCHECK(ax.size() == cnt, "axis(" << cnt << "," << i << ") returned " << ax.size() << " values");
        for (uint64_t k = 0; k < cnt; k++)
            VCHECK(ax[k] == a.coord(i + k), "axis(" << cnt << "," << i << ")[" << k << "] = " << dstr(ax[k]) << " but coordinate " << (i + k) << " is "
                                                     << dstr(a.coord(i + k)) << " on " << a.describe());
        auto io = [&](nix::PositionMatch m) -> boost::optional<nix::ndsize_t> {
            return a.kind == AK::Sampled ? fx.sd.indexOf(x, m) : fx.rd.indexOf(x, m);
        };
        boost::optional<nix::ndsize_t> ge = io(nix::PositionMatch::GreaterOrEqual), le = io(nix::PositionMatch::LessOrEqual),
                                       eq = io(nix::PositionMatch::Equal), ls = io(nix::PositionMatch::Less), gr = io(nix::PositionMatch::Greater);
        VCHECK(ge && *ge == i, "coordinate of sample " << i << " (" << dstr(x) << ") converts to " << optStr(ge) << " with GreaterOrEqual on " << a.describe());
        VCHECK(le && *le == i, "coordinate of sample " << i << " (" << dstr(x) << ") converts to " << optStr(le) << " with LessOrEqual on " << a.describe());
        VCHECK(eq && *eq == i, "coordinate of sample " << i << " (" << dstr(x) << ") converts to " << optStr(eq) << " with Equal on " << a.describe());
        if (i == 0) VCHECK(!ls, "Less at the first coordinate must give no index, got " << optStr(ls));
        else VCHECK(ls && *ls == i - 1, "coordinate of sample " << i << " converts to " << optStr(ls) << " with Less, expected " << (i - 1) << " on " << a.describe());
        if (a.bounded() && i + 1 >= n) VCHECK(!gr, "Greater at the last tick must give no index, got " << optStr(gr));
        else VCHECK(gr && *gr == i + 1, "coordinate of sample " << i << " converts to " << optStr(gr) << " with Greater, expected " << (i + 1) << " on " << a.describe());
        if (a.kind == AK::Range) {
            double p = qs[0].p;
            nix::PositionInRange pir = fx.rd.positionInRange(p);
            nix::PositionInRange exp = p < a.ticks.front() ? nix::PositionInRange::Less
                                       : (p > a.ticks.back() ? nix::PositionInRange::Greater : nix::PositionInRange::InRange);
            VCHECK(pir == exp, "positionInRange(" << dstr(p) << ") wrong on " << a.describe());
        }
    }
    ctx.nontrivial = (near && (nondyadic || a.kind == AK::Set || a.kind == AK::Frame)) || dep_mode;
    if (dep_mode) ctx.count("pair_validity_depends_on_mode");
    if (near) ctx.count("near_coordinate");
}

} // namespace c07
