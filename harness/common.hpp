// common.hpp - shared machinery of all harness binaries: the tape, counters, result files,
// the rapidcheck front end and the library-free replay front end.
#pragma once
#include <rapidcheck.h>

#include <algorithm>
#include <cinttypes>
#include <cmath>
#include <cstdint>
#include <cstdio>
#include <cstdlib>
#include <cstring>
#include <fstream>
#include <functional>
#include <iostream>
#include <map>
#include <set>
#include <sstream>
#include <stdexcept>
#include <string>
#include <unordered_set>
#include <vector>

#include <sys/stat.h>
#include <unistd.h>

#include <hdf5.h>

namespace vf {

// ---------------------------------------------------------------------------------------
// Violation: thrown by an oracle. Anything else escaping a case body is a harness error
// or an unexpected library exception and is reported the same way, with its type.
struct Violation : std::runtime_error {
    explicit Violation(const std::string &m) : std::runtime_error(m) {}
};

// KnownFinding: thrown by an oracle when the deviation matches the exact signature of a
// finding listed in KNOWN_FINDINGS.txt; counted, reported once, never a violation.
struct Known : std::runtime_error {
    std::string key;
    Known(const std::string &k, const std::string &m) : std::runtime_error(m), key(k) {}
};

#define VCHECK(cond, msg)                                                        \
    do {                                                                         \
        if (!(cond)) {                                                           \
            std::ostringstream vcheck_os_;                                       \
            vcheck_os_ << msg << "  [" #cond "] @" << __FILE__ << ":" << __LINE__; \
            throw vf::Violation(vcheck_os_.str());                               \
        }                                                                        \
    } while (0)

// ---------------------------------------------------------------------------------------
// The tape: every generated case is a vector of 32 bit words; decoders consume it.
// An exhausted tape yields zeros and every decoder maps 0 to its simplest choice.
struct Tape {
    const uint32_t *p;
    size_t n;
    size_t i = 0;
    Tape(const std::vector<uint32_t> &v) : p(v.data()), n(v.size()) {}
    Tape(const uint32_t *pp, size_t nn) : p(pp), n(nn) {}
    bool exhausted() const { return i >= n; }
    uint32_t word() { return i < n ? p[i++] : 0u; }
    uint64_t word64() {
        uint64_t lo = word();
        uint64_t hi = word();
        return (hi << 32) | lo;
    }
    // [0, m)
    uint32_t below(uint32_t m) { return m ? word() % m : 0u; }
    // [lo, hi] inclusive
    int64_t range(int64_t lo, int64_t hi) {
        uint64_t span = static_cast<uint64_t>(hi - lo) + 1u;
        uint64_t w = word();
        return lo + static_cast<int64_t>(span ? w % span : w);
    }
    bool flip() { return (word() & 1u) != 0; }
    // true with probability pct/100; the zero word says false
    bool chance(uint32_t pct) { return word() % 100u >= 100u - std::min(pct, 100u); }
    // weighted pick, index 0 for the zero word
    size_t pick(std::initializer_list<uint32_t> weights) {
        uint32_t sum = 0;
        for (uint32_t w : weights) sum += w;
        uint32_t r = below(sum);
        size_t k = 0;
        for (uint32_t w : weights) {
            if (r < w) return k;
            r -= w;
            ++k;
        }
        return 0;
    }
    template <typename T> const T &of(const std::vector<T> &v) { return v[below(static_cast<uint32_t>(v.size()))]; }
    // a double in [0,1)
    double unit() { return (word() >> 8) * (1.0 / 16777216.0); }
};

inline uint64_t fnv1a(const std::string &s, uint64_t h = 1469598103934665603ull) {
    for (unsigned char c : s) {
        h ^= c;
        h *= 1099511628211ull;
    }
    return h;
}

inline std::string jesc(const std::string &s) {
    std::string o;
    o.reserve(s.size() + 8);
    for (unsigned char c : s) {
        switch (c) {
        case '"': o += "\\\""; break;
        case '\\': o += "\\\\"; break;
        case '\n': o += "\\n"; break;
        case '\t': o += "\\t"; break;
        case '\r': o += "\\r"; break;
        default:
            if (c < 0x20 || c >= 0x7f) {
                char b[8];
                snprintf(b, sizeof b, "\\u%04x", c);
                o += b;
            } else {
                o += static_cast<char>(c);
            }
        }
    }
    return o;
}

// printable rendering of arbitrary bytes for traces
inline std::string show(const std::string &s) {
    std::string o = "\"";
    for (unsigned char c : s) {
        if (c == '"' || c == '\\') {
            o += '\\';
            o += static_cast<char>(c);
        } else if (c < 0x20 || c >= 0x7f) {
            char b[8];
            snprintf(b, sizeof b, "\\x%02x", c);
            o += b;
        } else {
            o += static_cast<char>(c);
        }
    }
    return o + "\"";
}

inline std::string dstr(double d) {
    char b[40];
    snprintf(b, sizeof b, "%.17g", d);
    return b;
}

// ---------------------------------------------------------------------------------------
// Per case context and per run statistics
struct Stats {
    uint64_t evaluations = 0;
    uint64_t shrink_evaluations = 0;
    std::unordered_set<uint64_t> nontrivial;
    std::map<std::string, uint64_t> classes;
    std::map<std::string, uint64_t> known;     // known-finding key -> hits
    std::map<std::string, std::string> known_example;
    std::vector<std::string> samples;
    uint64_t violations = 0;
    bool recording = true;   // false while rapidcheck shrinks a failure
    std::string fail_msg;
    static const size_t kHashCap = 400000;
};

struct Ctx {
    std::string work;        // private working directory (on /dev/shm)
    std::ostringstream trace; // human readable decoded case; hashed for distinctness
    bool nontrivial = false;
    Stats *stats = nullptr;
    uint64_t case_no = 0;
    void count(const std::string &k, uint64_t n = 1) { if (stats->recording) stats->classes[k] += n; }
    // every case works on files of its own: a name is prefixed with the serial number of the case, and the
    // files of the previous case are removed when the next one starts
    uint64_t serial = 0;
    std::string path(const std::string &name) const {
        std::string p = work + "/k" + std::to_string(serial) + "_" + name;
        created().push_back(p);
        return p;
    }
    static std::vector<std::string> &created() { static std::vector<std::string> v; return v; }
};

typedef std::function<void(Tape &, Ctx &)> CaseFn;

struct Options {
    std::string mode;     // run | replay
    std::string out;      // result json (run)
    std::string work;     // working directory
    std::string tape;     // replay file
    std::vector<std::string> extra;
    bool verbose = false;
    bool own_work = false;
};

inline bool write_tape(const std::string &path, const std::vector<uint32_t> &w, const std::string &comment = "") {
    std::string tmp = path + ".tmp";
    FILE *f = fopen(tmp.c_str(), "w");
    if (!f) return false;
    fprintf(f, "TAPE %zu\n", w.size());
    for (size_t i = 0; i < w.size(); i++) fprintf(f, "%u%c", w[i], (i + 1) % 16 == 0 ? '\n' : ' ');
    fprintf(f, "\nEND\n");
    if (!comment.empty()) {
        std::istringstream is(comment);
        std::string l;
        while (std::getline(is, l)) fprintf(f, "# %s\n", l.c_str());
    }
    fclose(f);
    return rename(tmp.c_str(), path.c_str()) == 0;
}

inline bool read_tape(const std::string &path, std::vector<uint32_t> &w) {
    std::ifstream in(path);
    if (!in) return false;
    std::string tag;
    size_t n = 0;
    in >> tag >> n;
    if (tag != "TAPE") return false;
    w.clear();
    for (size_t i = 0; i < n; i++) {
        uint64_t v;
        if (!(in >> v)) return false;
        w.push_back(static_cast<uint32_t>(v));
    }
    return true;
}

inline void write_result(const Options &opt, const Stats &st, const std::string &prop, double wall) {
    if (opt.out.empty()) return;
    std::ofstream o(opt.out + ".tmp");
    o << "{\n \"property\": \"" << prop << "\",\n \"evaluations\": " << st.evaluations
      << ",\n \"shrink_evaluations\": " << st.shrink_evaluations << ",\n \"violations\": " << st.violations
      << ",\n \"wall_s\": " << wall << ",\n \"fail_msg\": \"" << jesc(st.fail_msg) << "\",\n \"classes\": {";
    bool first = true;
    for (auto &kv : st.classes) {
        o << (first ? "" : ",") << "\n  \"" << jesc(kv.first) << "\": " << kv.second;
        first = false;
    }
    o << "\n },\n \"known\": {";
    first = true;
    for (auto &kv : st.known) {
        o << (first ? "" : ",") << "\n  \"" << jesc(kv.first) << "\": {\"hits\": " << kv.second << ", \"example\": \""
          << jesc(st.known_example.count(kv.first) ? st.known_example.at(kv.first) : "") << "\"}";
        first = false;
    }
    o << "\n },\n \"samples\": [";
    first = true;
    for (auto &s : st.samples) {
        o << (first ? "" : ",") << "\n  \"" << jesc(s) << "\"";
        first = false;
    }
    o << "\n ],\n \"nontrivial_hashes\": [";
    first = true;
    for (uint64_t h : st.nontrivial) {
        o << (first ? "" : ",") << "\"" << std::hex << h << std::dec << "\"";
        first = false;
    }
    o << "]\n}\n";
    o.close();
    rename((opt.out + ".tmp").c_str(), opt.out.c_str());
}

inline double now_s() {
    struct timespec ts;
    clock_gettime(CLOCK_MONOTONIC, &ts);
    return ts.tv_sec + ts.tv_nsec * 1e-9;
}

inline std::set<std::string> accepted_known() {
    std::set<std::string> s;
    const char *e = getenv("VERIF_KNOWN");
    if (!e) return s;
    std::istringstream is(e);
    std::string k;
    while (std::getline(is, k, ',')) if (!k.empty()) s.insert(k);
    return s;
}

// run one case: returns "" on pass, message on failure; known findings are counted
inline std::string run_case(const CaseFn &fn, const std::vector<uint32_t> &words, Ctx &ctx, bool record) {
    static uint64_t serial = 0;
    for (auto &p : Ctx::created()) unlink(p.c_str());
    Ctx::created().clear();
    ctx.serial = ++serial;
    Tape t(words);
    Stats &st = *ctx.stats;
    std::string fail;
    try {
        fn(t, ctx);
    } catch (const Known &k) {
        static const std::set<std::string> accepted = accepted_known();
        if (!accepted.count(k.key)) {
            return std::string("deviation with the signature of ") + k.key + ", which KNOWN_FINDINGS.txt does not list: " + k.what();
        }
        st.known[k.key]++;
        if (!st.known_example.count(k.key)) st.known_example[k.key] = std::string(k.what()) + " | " + ctx.trace.str();
        st.classes["known_finding_cases"]++;
        return "";
    } catch (const Violation &v) {
        fail = v.what();
    } catch (const std::exception &e) {
        fail = std::string("unexpected exception escaped the case body: ") + typeid(e).name() + ": " + e.what();
    }
    // HDF5 keeps freed memory on internal free lists; without this a long run grows by ~1 MB per case
    H5garbage_collect();
    if (getenv("VERIF_LEAKDIAG")) {
        ssize_t open_ids = H5Fget_obj_count(static_cast<hid_t>(H5F_OBJ_ALL), H5F_OBJ_FILE | H5F_OBJ_GROUP | H5F_OBJ_DATASET | H5F_OBJ_ATTR);
        if (open_ids > 0) {
            std::vector<hid_t> ids(static_cast<size_t>(open_ids));
            H5Fget_obj_ids(static_cast<hid_t>(H5F_OBJ_ALL), H5F_OBJ_FILE | H5F_OBJ_GROUP | H5F_OBJ_DATASET | H5F_OBJ_ATTR, ids.size(), ids.data());
            for (hid_t i : ids) fprintf(stderr, "LEAKDIAG   id %lld type %d ref %d\n", (long long)i, (int)H5Iget_type(i), H5Iget_ref(i));
        }
        if (open_ids != 0) fprintf(stderr, "LEAKDIAG case %llu leaves %ld open HDF5 ids: %s\n", (unsigned long long)ctx.case_no, (long)open_ids, ctx.trace.str().substr(0, 600).c_str());
    }
    if (fail.empty() && record) {
        if (ctx.nontrivial) {
            std::string tr = ctx.trace.str();
            if (st.nontrivial.size() < Stats::kHashCap) st.nontrivial.insert(fnv1a(tr));
            if (st.samples.size() < 4 || (st.samples.size() < 8 && (st.evaluations % 97) == 0)) {
                if (tr.size() > 3000) tr = tr.substr(0, 3000) + " ...";
                st.samples.push_back(tr);
            }
        }
    }
    return fail;
}

inline rc::Gen<std::vector<uint32_t>> tapeGen() {
    using namespace rc;
    auto elem = gen::weightedOneOf<uint32_t>({
        {2, gen::resize(100, gen::inRange<uint32_t>(0, 4))},
        {2, gen::resize(100, gen::inRange<uint32_t>(0, 64))},
        {9, gen::resize(100, gen::arbitrary<uint32_t>())},
    });
    return gen::container<std::vector<uint32_t>>(elem);
}

inline Options parse_args(int argc, char **argv, int first) {
    Options o;
    for (int i = first; i < argc; i++) {
        std::string a = argv[i];
        if (a == "run") o.mode = "run";
        else if (a == "enum") o.mode = "enum";
        else if (a == "replay" && i + 1 < argc) { o.mode = "replay"; o.tape = argv[++i]; }
        else if (a == "--out" && i + 1 < argc) o.out = argv[++i];
        else if (a == "--work" && i + 1 < argc) o.work = argv[++i];
        else if (a == "-v") o.verbose = true;
        else o.extra.push_back(a);
    }
    if (o.work.empty()) {
        char tmpl[] = "/dev/shm/vf_XXXXXX";
        char *d = mkdtemp(tmpl);
        o.work = d ? d : "/dev/shm";
        o.own_work = true;
    } else {
        mkdir(o.work.c_str(), 0700);
    }
    return o;
}

// front end: rapidcheck run or replay. Exit codes: 0 pass, 3 violation (fail.tape written
// in the work dir / message printed), anything else = crash.
typedef std::function<void(const std::function<void(const std::vector<uint32_t> &)> &)> EnumFn;

inline int drive(const std::string &prop, const Options &opt, const CaseFn &fn, const EnumFn &enumerate = EnumFn()) {
    if (!getenv("VERIF_H5DIAG")) H5Eset_auto2(H5E_DEFAULT, nullptr, nullptr);
    Stats st;
    double t0 = now_s();
    if (opt.mode == "enum") {
        // exhaustive enumeration of a finite space, expressed as tapes so that every member
        // is replayable like a generated case
        if (!enumerate) return 0;
        std::string failp = opt.work + "/fail.tape";
        bool ok = true;
        enumerate([&](const std::vector<uint32_t> &w) {
            if (!ok) return;
            Ctx ctx;
            ctx.work = opt.work;
            ctx.stats = &st;
            ctx.case_no = st.evaluations++;
            std::string fail = run_case(fn, w, ctx, true);
            if (!fail.empty()) {
                ok = false;
                st.fail_msg = fail;
                st.violations = 1;
                write_tape(failp, w, "FAIL: " + fail + "\nTRACE: " + ctx.trace.str());
            }
        });
        st.classes["enumerated_exhaustively"] = st.evaluations;
        write_result(opt, st, prop, now_s() - t0);
        return ok ? 0 : 3;
    }
    if (opt.mode == "replay") {
        std::vector<uint32_t> w;
        if (!read_tape(opt.tape, w)) {
            fprintf(stderr, "cannot read tape %s\n", opt.tape.c_str());
            return 2;
        }
        Ctx ctx;
        ctx.work = opt.work;
        ctx.stats = &st;
        st.evaluations = 1;
        std::string fail = run_case(fn, w, ctx, true);
        if (opt.verbose || !fail.empty()) std::cout << "TRACE: " << ctx.trace.str() << "\n";
        for (auto &kv : st.known) std::cout << "KNOWN " << kv.first << " " << st.known_example[kv.first] << "\n";
        if (!fail.empty()) {
            std::cout << "FAIL: " << fail << "\n";
            return 3;
        }
        std::cout << "PASS nontrivial=" << (ctx.nontrivial ? 1 : 0) << "\n";
        return 0;
    }
    bool failed_once = false;
    double fail_t0 = 0.0;
    uint64_t shrink_budget = 1500;
    if (const char *sb = getenv("VERIF_SHRINK_BUDGET")) shrink_budget = strtoull(sb, nullptr, 10);
    std::string curp = opt.work + "/cur.tape";
    std::string failp = opt.work + "/fail.tape";
    bool ok = rc::check(prop, [&]() {
        std::vector<uint32_t> words = *tapeGen();
        write_tape(curp, words);
        Ctx ctx;
        ctx.work = opt.work;
        ctx.stats = &st;
        ctx.case_no = st.evaluations;
        if (failed_once) st.shrink_evaluations++; else st.evaluations++;
        st.recording = !failed_once;
        // bound the cost of shrinking: past the budget every candidate "passes", so rapidcheck stops
        // at the smallest failing tape found so far (which fail.tape already holds)
        if (failed_once && (st.shrink_evaluations > shrink_budget || now_s() - fail_t0 > 150.0)) return;
        std::string fail = run_case(fn, words, ctx, !failed_once);
        if (!fail.empty()) {
            if (!failed_once) fail_t0 = now_s();
            failed_once = true;
            st.fail_msg = fail;
            write_tape(failp, words, "FAIL: " + fail + "\nTRACE: " + ctx.trace.str());
            RC_FAIL(fail);
        }
    });
    unlink(curp.c_str());
    if (!ok) st.violations = 1;
    write_result(opt, st, prop, now_s() - t0);
    return ok ? 0 : 3;
}

inline void rm_rf(const std::string &dir) {
    std::string cmd = "rm -rf '" + dir + "'";
    if (system(cmd.c_str())) {}
}

} // namespace vf
