// h_misc - C10 (format-version gate, ordering laws) and C19 (validator)
#include "common.hpp"
#include "nixutil.hpp"

#include <climits>

using namespace vf;

// =======================================================================================
// C10
// =======================================================================================
namespace c10 {

static std::string g_template;          // a valid file written by the library
static std::vector<int> g_lib;          // library format version, read from that file
static std::string g_template_bytes;

static void prepare(const std::string &work) {
    if (!g_template.empty()) return;
    g_template = work + "/c10_template.nix";
    {
        nix::File f = nix::File::open(g_template, nix::FileMode::Overwrite);
        g_lib = f.version();
        nix::Block b = f.createBlock("blk", "t");
        b.createDataArray("da", "t", nix::DataType::Double, nix::NDSize({3}));
        f.createSection("sec", "t");
        f.close();
    }
    g_template_bytes = slurp(g_template);
}

static int comp(Tape &t, int lib) {
    // word 0..4 -> lib-2..lib+2 (0 = lib itself first so that shrinking ends at the library version)
    static const int delta[5] = {0, -1, 1, -2, 2};
    uint32_t w = t.word();
    uint32_t k = w % 16;
    if (k < 5) return lib + delta[k];
    switch (k) {
    case 5: return 0;
    case 6: return -1;
    case 7: return INT_MAX;
    case 8: return INT_MIN;
    case 9: return INT_MAX - 1;
    case 10: return 1;
    case 11: return lib + 3;
    case 12: return lib + 100;
    default: return static_cast<int>(t.word()); // any bit pattern
    }
}

// gate case: tape = [kind=0, x, y, z, mode, force]
static void gate(Tape &t, Ctx &ctx) {
    int x = comp(t, g_lib[0]), y = comp(t, g_lib[1]), z = comp(t, g_lib[2]);
    bool rw = t.flip();
    bool force = t.flip();
    ctx.trace << "gate file=(" << x << "," << y << "," << z << ") lib=(" << g_lib[0] << "," << g_lib[1] << "," << g_lib[2]
              << ") mode=" << (rw ? "ReadWrite" : "ReadOnly") << " force=" << force;
    std::string path = ctx.path("c10_case.nix");
    spit(path, g_template_bytes);
    int v[3] = {x, y, z};
    VCHECK(h5_write_int_attr(path, "/", "version", v, 3), "harness: could not rewrite the version attribute");

    bool expect_read = (x == g_lib[0]) && (y <= g_lib[1]);
    bool expect_write = (x == g_lib[0]) && (y == g_lib[1]) && (z == g_lib[2]);
    bool expect = force ? true : (rw ? expect_write : expect_read);

    bool opened = false;
    std::string err;
    try {
        nix::File f = nix::File::open(path, rw ? nix::FileMode::ReadWrite : nix::FileMode::ReadOnly, "hdf5",
                                      nix::Compression::Auto, force ? nix::OpenFlags::Force : nix::OpenFlags::None);
        opened = f.isOpen();
        if (opened) {
            // a usable file: content reachable, version reported as stored
            std::vector<int> fv = f.version();
            VCHECK(fv.size() == 3 && fv[0] == x && fv[1] == y && fv[2] == z, "opened file reports a different version");
            VCHECK(f.blockCount() == 1 && f.sectionCount() == 1, "opened file lost its content");
        }
        f.close();
    } catch (const std::exception &e) {
        err = e.what();
    }
    ctx.trace << " -> " << (opened ? "opened" : "refused");
    ctx.count(std::string("gate_") + (rw ? "rw" : "ro") + (force ? "_force" : "") + (opened ? "_opened" : "_refused"));
    VCHECK(opened == expect, "version gate: expected " << (expect ? "open" : "refusal") << " got " << (opened ? "open" : ("refusal: " + err)));
    // non-trivial: the two modes, or Force / None, differ in outcome for this triple
    ctx.nontrivial = (expect_read != expect_write) || (force && !(rw ? expect_write : expect_read));
}

static nix::FormatVersion fv(Tape &t, std::ostream &os) {
    int x = comp(t, g_lib[0]), y = comp(t, g_lib[1]), z = comp(t, g_lib[2]);
    os << "(" << x << "," << y << "," << z << ")";
    return nix::FormatVersion({x, y, z});
}

static int cmp3(const nix::FormatVersion &a, const nix::FormatVersion &b) {
    for (size_t i = 0; i < 3; i++) {
        if (a[i] < b[i]) return -1;
        if (a[i] > b[i]) return 1;
    }
    return 0;
}

// ordering laws: tape = [kind=1, a.., b.., c..]
static void laws(Tape &t, Ctx &ctx) {
    ctx.trace << "laws ";
    nix::FormatVersion a = fv(t, ctx.trace), b = fv(t, ctx.trace), c = fv(t, ctx.trace);
    int ab = cmp3(a, b), bc = cmp3(b, c), ac = cmp3(a, c);
    VCHECK(!(a < a) && a == a && a <= a && a >= a && !(a != a) && !(a > a), "reflexive laws");
    VCHECK((a < b) == (ab < 0), "operator< is not the lexicographic order");
    VCHECK((a == b) == (ab == 0), "operator== is not component equality");
    VCHECK((a > b) == (ab > 0), "operator>");
    VCHECK((a <= b) == (ab <= 0), "operator<=");
    VCHECK((a >= b) == (ab >= 0), "operator>=");
    VCHECK((a != b) == (ab != 0), "operator!=");
    int n = (a < b ? 1 : 0) + (a == b ? 1 : 0) + (b < a ? 1 : 0);
    VCHECK(n == 1, "trichotomy: exactly one of a<b, a==b, b<a must hold, got " << n);
    if (a < b && b < c) VCHECK(a < c, "transitivity of <");
    if (a <= b && b <= c) VCHECK(a <= c, "transitivity of <=");
    if (a == b) VCHECK((a < c) == (b < c) && (c < a) == (c < b), "equality is a congruence for <");
    // canRead / canWrite agree with the statement
    nix::FormatVersion lib(g_lib);
    VCHECK(lib.canRead(a) == (a.x() == lib.x() && a.y() <= lib.y()), "canRead");
    VCHECK(lib.canWrite(a) == (cmp3(lib, a) == 0), "canWrite");
    (void)bc; (void)ac;
    ctx.nontrivial = ab != 0 && bc != 0 && (a.x() == b.x() || b.x() == c.x());
    ctx.count("laws");
}

static void body(Tape &t, Ctx &ctx) {
    prepare(ctx.work);
    if (t.word() % 2 == 0) gate(t, ctx); else laws(t, ctx);
}

static void enumerate(const std::function<void(const std::vector<uint32_t> &)> &emit) {
    // the whole cube [lib-2, lib+2]^3 x {ReadOnly, ReadWrite} x {None, Force}
    for (uint32_t x = 0; x < 5; x++)
        for (uint32_t y = 0; y < 5; y++)
            for (uint32_t z = 0; z < 5; z++)
                for (uint32_t m = 0; m < 2; m++)
                    for (uint32_t f = 0; f < 2; f++) emit({0, x, y, z, m, f});
    // extremes in each component, others at the library version
    for (uint32_t e = 5; e <= 12; e++)
        for (uint32_t pos = 0; pos < 3; pos++)
            for (uint32_t m = 0; m < 2; m++)
                for (uint32_t f = 0; f < 2; f++) {
                    std::vector<uint32_t> w = {0, 0, 0, 0, m, f};
                    w[1 + pos] = e;
                    emit(w);
                }
    // ordering laws for all pairs of the cube (third operand: a rotation of the second)
    for (uint32_t i = 0; i < 125; i++)
        for (uint32_t j = 0; j < 125; j++) {
            uint32_t k = (j * 7 + i * 3 + 1) % 125;
            emit({1, i / 25, (i / 5) % 5, i % 5, j / 25, (j / 5) % 5, j % 5, k / 25, (k / 5) % 5, k % 5});
        }
}

} // namespace c10

#include "c19.hpp"

int main(int argc, char **argv) {
    if (argc < 3) {
        fprintf(stderr, "usage: h_misc <c10|c19> run|enum|replay <tape> [--out f] [--work d]\n");
        return 2;
    }
    std::string prop = argv[1];
    Options opt = parse_args(argc, argv, 2);
    int rc = 2;
    if (prop == "c10") rc = drive("C10", opt, c10::body, c10::enumerate);
    else if (prop == "c19") rc = drive("C19", opt, c19::body);
    if (opt.own_work) rm_rf(opt.work);
    // leave without exit handlers: after a failed case entities may still be open, and HDF5's own
    // termination routine is not part of what is checked
    fflush(nullptr);
    _exit(rc);
}
