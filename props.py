# props.py - per property configuration of the driver (binary, budgets, evidence texts)
COMMON_ASSUME = [
    "the sanitised build (clang -O1, ASan+UBSan, -DNDEBUG, -ffp-contract=off) behaves like the shipped library",
    "HDF5 1.10.8 and the file system (tmpfs under /dev/shm) work as documented",
    "exploration only: the property held on the generated cases, absence of violations elsewhere is not shown",
]

PROPS = {
    "C10": dict(
        bin="h_misc", sub="c10", level="exploration", enum=True,
        technique="exhaustive enumeration of the version cube plus rapidcheck-generated triples against the stated gate and order laws",
        level_text="every triple of the cube around the library version x both modes x Force on/off is opened and compared with "
                   "the statement (exhaustive), all pairs of the cube are checked for the ordering laws, and random/extreme "
                   "triples are generated on top; for the unbounded rest of the integers this is exploration",
        level_note="the version attribute is rewritten with the HDF5 C API; the library version is read from a freshly created file",
        enum_text="cube [lib-2,lib+2]^3 x {ReadOnly,ReadWrite} x {None,Force} (500 opens), 8 extreme values per component, "
                  "ordering laws for all 15625 ordered pairs of the cube",
        quick=dict(cases=1500, size=40, workers=16, timeout=900),
        thorough=dict(cases=70000, size=40, workers=16, timeout=7200),
        rule="tape -> (x,y,z) near the library version / extreme / arbitrary int, mode, Force flag; the version attribute "
             "of a valid file is rewritten with the HDF5 C API and File::open is compared with the statement; or three "
             "triples for the ordering laws. Non-trivial: the two modes or Force/None differ in outcome for the triple; "
             "laws: three pairwise different triples sharing a major version. Distinct = hash of the decoded case.",
        assumptions=COMMON_ASSUME + ["the library's own format version is read from a file it has just created"],
    ),
    "C07": dict(
        bin="h_access", sub="c07", level="exploration",
        technique="rapidcheck-generated axes and positions (on, one ulp beside, between, beyond coordinates) against a brute-force search over the axis",
        level_text="generated sampled/range/set/data-frame axes (decimal, binary and random intervals and offsets, indices up to 10^4, "
                   "1-64 ticks, 0-12 labels/rows) and positions on, one ulp beside, between, below and beyond the coordinates; every one of "
                   "the five PositionMatch rules, both RangeMatch modes, scalar, vector and util:: overloads are compared with the index "
                   "found by exact comparisons against the axis coordinates themselves; exploration, no proof for all doubles",
        level_note="axis coordinates are computed by the documented expression index*interval+offset with -ffp-contract=off in library and "
                   "harness; for unbounded axes the reference search is a +-16 window around the real-number estimate, generators keep "
                   "ulp(x_max) < interval/8 so that the window is decisive (undecidable cases are counted as excluded)",
        quick=dict(cases=4000, size=60, workers=16, timeout=1800),
        thorough=dict(cases=200000, size=60, workers=16, timeout=14400),
        rule="tape -> axis kind and parameters, 1-6 positions from classes {on coordinate i, one ulp above/below, midpoint, random between, "
             "below the first, one ulp below the first, beyond the last, far (1e9..DBL_MAX, bounded axes)}, 1-4 start/end pairs, a round-trip "
             "index. Non-trivial: a position on or within one ulp of a coordinate on an axis with a non-dyadic interval/offset (or a range/"
             "set/frame axis), or a pair whose validity differs between Inclusive and Exclusive. Distinct = hash of the decoded case.",
        assumptions=COMMON_ASSUME + ["positions whose index would exceed 2*10^4 on an unbounded axis are outside the quantified domain and not generated"],
    ),
}
