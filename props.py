# props.py - per property configuration of the driver (binary, budgets, evidence texts)
COMMON_ASSUME = [
    "the sanitised build (clang -O1, ASan+UBSan, -DNDEBUG, -ffp-contract=off) behaves like the shipped library",
    "HDF5 1.10.8 and the file system (tmpfs under /dev/shm) work as documented",
    "exploration only: the property held on the generated cases, absence of violations elsewhere is not shown",
]

PROPS = {
    "C10": dict(
        bin="h_misc", sub="c10", level="exploration", enum=True,
        technique="exhaustive enumeration of the version cube plus rapidcheck-generated triples against the stated gate and order laws",
        level_text="every triple of the cube around the library version x both modes x Force on/off is opened and compared with "
                   "the statement (exhaustive), all pairs of the cube are checked for the ordering laws, and random/extreme "
                   "triples are generated on top; for the unbounded rest of the integers this is exploration",
        level_note="the version attribute is rewritten with the HDF5 C API; the library version is read from a freshly created file",
        enum_text="cube [lib-2,lib+2]^3 x {ReadOnly,ReadWrite} x {None,Force} (500 opens), 8 extreme values per component, "
                  "ordering laws for all 15625 ordered pairs of the cube",
        quick=dict(cases=8000, size=40, workers=16, timeout=600),
        thorough=dict(cases=70000, size=40, workers=16, timeout=7200),
        rule="tape -> (x,y,z) near the library version / extreme / arbitrary int, mode, Force flag; the version attribute "
             "of a valid file is rewritten with the HDF5 C API and File::open is compared with the statement; or three "
             "triples for the ordering laws. Non-trivial: the two modes or Force/None differ in outcome for the triple; "
             "laws: three pairwise different triples sharing a major version. Distinct = hash of the decoded case.",
        assumptions=COMMON_ASSUME + ["the library's own format version is read from a file it has just created"],
    ),
    "C05": dict(
        bin="h_access", sub="c05", level="exploration",
        technique="rapidcheck-generated arrays (every descriptor kind), tags and features; returned view (shape AND element identities) compared with a brute-force evaluation of the statement over the axis coordinates",
        level_text="generated DataArrays of rank 1-3 (extent 1-9, element = own linear index) with every combination of sampled (decimal, "
                   "binary, random intervals and offsets), range, set (with / without labels) and data-frame descriptors; tags with 1..rank+1 "
                   "position entries on / one ulp beside / between / below / beyond the coordinates, extent absent / zero / ending on, "
                   "between, outside coordinates / negative / tiny / of wrong length, units absent, equal or prefix-scaled, both RangeMatch "
                   "modes through six entry points (also the default-mode ones); tagged, untagged and indexed features. The expected block is "
                   "the index set {i: p <= x_i <= p+e} / {i: p <= x_i < p+e} per specified dimension, everything along unspecified ones, "
                   "nix::OutOfBounds when empty or outside the data; the view must have that shape and return exactly those elements; "
                   "getOffsetAndCount must agree",
        level_note="p+e is formed in double as the library documents; scaled requests use positions inside sample intervals and are skipped "
                   "(counted) when a 1e-9 relative change of the scaling factor would change the answer; known finding KF-1 is recognised by "
                   "its exact signature only",
        quick=dict(cases=2500, size=200, workers=16, timeout=600),
        thorough=dict(cases=30000, size=200, workers=16, timeout=14400),
        rule="tape -> array spec, tag request, mode, entry point, optional feature. Non-trivial: the expected region is a proper sub-block in "
             "a specified dimension with a boundary on or within one ulp of a coordinate, or a dimension is unspecified, or an error is "
             "expected. Distinct = hash of the decoded case.",
        assumptions=COMMON_ASSUME + ["descriptors conform to the data (as many ticks / labels / rows as elements), as the statement presupposes"],
    ),
    "C06": dict(
        bin="h_access", sub="c06", level="exploration",
        technique="rapidcheck-generated arrays, positions/extents matrices, indices and index lists; every returned view (shape and element identities) compared with the brute-force region of row i; list retrieval compared element-wise with single retrievals",
        level_text="arrays as in C05; positions N (1-D data) or N x D' (N 1-8, D' = rank, smaller or larger) with per-row position and "
                   "extent classes as in C05, extents absent or of the same shape, per-dimension units absent / equal / prefix-scaled, both "
                   "modes through the explicit and the default-mode entry points; every index in and beyond [0,N), index lists (empty = all, "
                   "with duplicates, reversed); indexed, tagged and untagged features. Expected: the brute-force block of row i (C05 "
                   "reference), nix::OutOfBounds for an index beyond N or an empty / outside region, list == list of singles, indexed "
                   "feature = slice i of the first dimension, getOffsetAndCount equal to the block",
        level_note="as C05; tagged features of 1-D positions are 1-D (the statement pairs 1-D positions with 1-D data); known finding KF-1 is "
                   "recognised by its exact signature only (it needs extents)",
        quick=dict(cases=600, size=300, workers=16, timeout=600),
        thorough=dict(cases=15000, size=300, workers=16, timeout=14400),
        rule="tape -> array spec, N, D', rows, mode, 1-4 single retrievals, one list retrieval, optional feature. Non-trivial: N >= 2 and a "
             "retrieval with i > 0, or no extents, or an expected error. Distinct = hash of the decoded case.",
        assumptions=COMMON_ASSUME + ["descriptors conform to the data (as many ticks / labels / rows as elements)"],
    ),
    "C17": dict(
        bin="h_access", sub="c17", level="exploration",
        technique="rapidcheck-generated slices (start/end/unit vectors of independent lengths) compared with the brute-force region, and generated request sequences on DataView windows compared with an in-memory model of the underlying array",
        level_text="slices: arrays as in C05, start and end vectors of 0..rank entries each (independently; also rank+1), bounds on / one "
                   "ulp beside / between / outside coordinates, start <, =, > end, units absent / equal / prefix-scaled, both modes and the "
                   "default; expected: exactly the elements with coordinates in [start,end] / [start,end), a missing bound replaced by the "
                   "end of the axis (inclusive), unspecified dimensions in full, an exception for start > end, an empty region or a region "
                   "leaving the data. Views: arrays of rank 1-3, a window anywhere inside (or leaving the array: refused), 4-19 read / "
                   "write requests inside, touching and crossing the window edge in exactly one dimension, with rank mismatch, values "
                   "near 2^64, without offset / count; reads return model[origin+offset...], writes change exactly those elements, a "
                   "request past the window throws nix::OutOfBounds, leaves the caller's buffer (sentinel) and the whole array unchanged",
        level_note="start == end accepts either the single element at or after start or an exception (the statement leaves it open); units "
                   "are only given for dimensions whose start and end are both given; scaled requests as in C05",
        quick=dict(cases=2500, size=200, workers=16, timeout=600),
        thorough=dict(cases=40000, size=200, workers=16, timeout=14400),
        rule="tape -> {slice case | view case}. Non-trivial: a slice with fewer start or end entries than dimensions, or with a bound on / "
             "one ulp beside a coordinate, or with start > end; a view case with a request crossing the window edge in exactly one "
             "dimension or a read after a write. Distinct = hash of the decoded case.",
        assumptions=COMMON_ASSUME + ["descriptors conform to the data"],
    ),
    "C18": dict(
        bin="h_access", sub="c18", level="exploration",
        technique="rapidcheck-generated unit triples (20 prefixes x 31 base units x powers -3..3, plus different base / power / non-SI strings) against the closed form and the algebraic laws; metamorphic retrieval: the same tag / multi-tag / slice request in the dimension's unit and in a prefix-scaled unit with rescaled values",
        level_text="(a) units a, b, c built from every SI prefix, every base unit of the library's list and powers +-1..3: splitUnit returns "
                   "the parts, isScalable is symmetric and true exactly for equal base and power, getSIScaling(a,b) = 10^(power*(exp_a-exp_b)) "
                   "within 1e-12 relative, f(a,b)*f(b,a) = 1, f(a,b)*f(b,c) = f(a,c) within 1e-12, different base / power / non-SI strings "
                   "are not scalable and getSIScaling throws; (b) arrays whose sampled / range dimensions carry units with any of the 20 "
                   "prefixes; one request with values in the dimension's unit and the same request with every value divided by the factor "
                   "of a generated other prefix, through Tag, MultiTag and dataSlice, both modes: both must fail, or both return the same "
                   "shape and the same elements",
        level_note="tolerance 1e-12 relative for factors (products of decimal literals are not exact in binary); retrieval uses positions "
                   "inside sample intervals, cases whose rescaled values do not map back to within 1e-6 of a sample step are excluded and "
                   "counted; all units of one triple use the same power notation",
        quick=dict(cases=700, size=200, workers=16, timeout=600),
        thorough=dict(cases=20000, size=200, workers=16, timeout=14400),
        rule="tape -> {unit algebra | retrieval pair}. Non-trivial: a multi-letter base unit with prefix and power (mmol^2, mSv^-1, ...), a "
             "rejected pair, or a retrieval pair whose two requests use different prefixes. Distinct = hash of the decoded case.",
        assumptions=COMMON_ASSUME,
    ),
    "C19": dict(
        bin="h_misc", sub="c19", level="exploration",
        technique="rapidcheck-driven constructive generator of rule-conforming files plus 0-5 injected breaches (public API, raw HDF5 where the API refuses); File::validate() compared with the set of breached entities",
        level_text="conforming files (1-3 blocks, arrays of rank 1-3 with exactly rank-many conforming descriptors of all kinds, SI / compound "
                   "/ no array units, calibration complete or absent, tags and multi tags with convertible units incl. more units than "
                   "dimensions, positions arrays, features with data, nested sources and sections, properties with and without values) "
                   "must validate without errors; then 0-5 breaches at entities chosen from the tape: descriptor count != rank, tick / "
                   "label / row count != data length, unsorted ticks and interval <= 0 (raw HDF5), inconvertible tag unit, multi tag "
                   "without positions, feature without data; soft: non-SI array unit, coefficients without origin and vice versa, offset "
                   "without unit, property values without unit, missing array unit. Every hard-breached entity must carry an error "
                   "(descriptor-level rules: as many id-less errors as breached descriptors), no other entity may carry one, every soft "
                   "breach with a rule must produce a warning, validate() must not throw",
        level_note="an error is attributed by the entity id of the message; descriptor messages carry no entity id and are counted; "
                   "breaches that would cancel or invalidate each other (descriptors deleted under a breached tag unit, repeated edits of "
                   "one array) are not combined",
        quick=dict(cases=300, size=400, workers=16, timeout=600),
        thorough=dict(cases=3000, size=400, workers=16, timeout=14400),
        rule="tape -> conforming file, breach list. Non-trivial: at least 2 blocks or an array of rank >= 2, at least one hard breach, and a "
             "breach that is not on the first array / first dimension / first unit / first feature. Distinct = hash of the decoded case.",
        assumptions=COMMON_ASSUME,
    ),
    "C07": dict(
        bin="h_access", sub="c07", level="exploration",
        technique="rapidcheck-generated axes and positions (on, one ulp beside, between, beyond coordinates) against a brute-force search over the axis",
        level_text="generated sampled/range/set/data-frame axes (decimal, binary and random intervals and offsets, indices up to 10^4, "
                   "1-64 ticks, 0-12 labels/rows) and positions on, one ulp beside, between, below and beyond the coordinates; every one of "
                   "the five PositionMatch rules, both RangeMatch modes, scalar, vector and util:: overloads are compared with the index "
                   "found by exact comparisons against the axis coordinates themselves; exploration, no proof for all doubles",
        level_note="axis coordinates are computed by the documented expression index*interval+offset with -ffp-contract=off in library and "
                   "harness; for unbounded axes the reference search is a +-16 window around the real-number estimate, generators keep "
                   "ulp(x_max) < interval/8 so that the window is decisive (undecidable cases are counted as excluded)",
        quick=dict(cases=4000, size=60, workers=16, timeout=600),
        thorough=dict(cases=60000, size=60, workers=16, timeout=14400),
        rule="tape -> axis kind and parameters, 1-6 positions from classes {on coordinate i, one ulp above/below, midpoint, random between, "
             "below the first, one ulp below the first, beyond the last, far (1e9..DBL_MAX, bounded axes)}, 1-4 start/end pairs, a round-trip "
             "index. Non-trivial: a position on or within one ulp of a coordinate on an axis with a non-dyadic interval/offset (or a range/"
             "set/frame axis), or a pair whose validity differs between Inclusive and Exclusive. Distinct = hash of the decoded case.",
        assumptions=COMMON_ASSUME + ["positions whose index would exceed 2*10^4 on an unbounded axis are outside the quantified domain and not generated"],
    ),
    "C01": dict(
        bin="h_array", sub="c01", level="exploration",
        technique="rapidcheck-generated operation histories on a DataArray compared after every read with an in-memory n-d array model",
        level_text="generated histories (write hyperslab through four front ends, whole-array setData through containers, append, "
                   "extent change, reads through four front ends, cross-type reads, calibration, reopen) over 12 element types, ranks 1-4, "
                   "three compression settings; an n-d array model predicts every read, a full scan follows every reopen and the end; "
                   "exploration of histories up to 40 operations and 12 elements per axis",
        level_note="model = row-major vector + extent; calibrated reads are compared with the polynomial at (stored-origin) under a relative "
                   "tolerance of 1e-9 of the sum of the absolute terms (any evaluation order passes) and exactly when all operands are small "
                   "integers; cross-type reads only for values exactly representable in the requested type",
        quick=dict(cases=1500, size=500, workers=16, timeout=600),
        thorough=dict(cases=12000, size=500, workers=16, timeout=14400),
        rule="tape -> element type, rank 1-4, initial extent per axis (0, 1, 2-6), file/array compression, then up to 40 operations. "
             "Non-trivial: at least 2 writes, at least one extent change or append and at least one later read that overlaps both written "
             "and never-written elements. Distinct = hash of the decoded history.",
        assumptions=COMMON_ASSUME + ["strings never contain NUL (HDF5 variable length C strings cannot hold it)"],
    ),
    "C13": dict(
        bin="h_array", sub="c13", level="exploration",
        technique="rapidcheck-generated append/modify/delete/reopen histories on dimension descriptors compared with a model list after every step",
        level_text="generated histories of append (all five kinds, also the deprecated create* spellings), setters with legal and illegal "
                   "values, deleteDimensions, reopen, and writes through an alias dimension and through its array; after every step the "
                   "descriptor list is compared with a model (count, gap-free indices, kind, every parameter) and the invariants ticks "
                   "ascending / interval > 0 / alias mirrors array are checked on the observed state",
        level_note="a call that throws must leave the model (and therefore the observed list) unchanged; a call that succeeds updates the model "
                   "with the values given, so an accepted illegal value fails the invariant; offset none is treated as 0.0",
        quick=dict(cases=1200, size=300, workers=16, timeout=600),
        thorough=dict(cases=10000, size=300, workers=16, timeout=14400),
        rule="tape -> element type, rank, up to 30 operations {append x5 kinds, modify parameter of descriptor k, deleteDimensions, reopen ro/rw, "
             "array-side writes, late alias}. Non-trivial: at least 3 descriptors of at least 2 kinds with a modification after a reopen, or an "
             "alias written from both sides. Distinct = hash of the decoded history.",
        assumptions=COMMON_ASSUME,
    ),
    "C14": dict(
        bin="h_array", sub="c14", level="exploration",
        technique="rapidcheck-generated assign/replace/clear/unit/uncertainty/reopen histories on a Property compared with a model after every step",
        level_text="generated histories over the 7 value types and the three createProperty overloads: assign vectors of 0-64 values (numeric "
                   "extremes, -0.0, denormals, NaN, inf, empty/long/UTF-8 strings), replace, deleteValues, values(none), wrong-type and mixed-type "
                   "assignments (must throw and change nothing), unit/uncertainty/definition set and unset, reopen; after every step values(), "
                   "valueCount(), dataType(), unit, uncertainty, definition are compared with the model",
        level_note="doubles compared bitwise except NaN (by class); the value count of a property created without values is not asserted "
                   "before the first assignment; units without blanks (the setter removes blanks)",
        quick=dict(cases=2500, size=300, workers=16, timeout=600),
        thorough=dict(cases=20000, size=300, workers=16, timeout=14400),
        rule="tape -> value type, creation overload, up to 24 operations. Non-trivial: assignments of at least 2 different lengths with a reopen "
             "inside the history, or a rejected wrong-type/mixed-type assignment. Distinct = hash of the decoded history.",
        assumptions=COMMON_ASSUME + ["strings never contain NUL"],
    ),
    "C15": dict(
        bin="h_array", sub="c15", level="exploration",
        technique="rapidcheck-generated row-count/write histories on a DataFrame; every cell re-read through row, cell and column access and compared with a model table",
        level_text="generated schemas (1-8 columns over the 7 cell types, units) and histories of rows(n), writeRow, writeCell, writeCells (by "
                   "index / by name, any column subset and order), writeColumn (offset, count), reopen; after every step every cell is read "
                   "back through readRow, readCells, readCell and readColumn (resize on/off, offset) and compared with the model table, "
                   "together with columns(), colIndex, colName, rows()",
        level_note="std::vector<bool> has no column front end, Bool columns are read through the row and cell paths only",
        quick=dict(cases=200, size=300, workers=16, timeout=600),
        thorough=dict(cases=3000, size=300, workers=16, timeout=14400),
        rule="tape -> schema, compression, up to 20 operations. Non-trivial: a cell/column write together with at least 2 row-count changes, or a "
             "String column with rows that were never written. Distinct = hash of the decoded history.",
        assumptions=COMMON_ASSUME + ["strings never contain NUL"],
    ),
    "C03": dict(
        bin="h_tree", sub="c03", level="exploration",
        technique="rapidcheck-generated create/delete/link/unlink programs; after every step every container is checked for agreement of count, enumeration, index, name, id and has-lookups, and its order against the previous snapshot",
        level_text="generated programs of 6-75 API calls (names from a pool with '..', case and blank variants, UTF-8, UUID-shaped names, re-use "
                   "of deleted names, attempted duplicates; deletes by name, id and handle; reopen inside) over all 13 container kinds; after "
                   "every step, for every container of the file: count == |enumeration|, enumeration[i] == get(i), ids and names pairwise "
                   "distinct, get(id) / get(name) return that entity, has(id) / has(name) / has(handle) true, get(count) nothing, vanished "
                   "members no longer found; survivors keep their relative order and new members follow them; the same after a final reopen",
        level_note="tag references and attached sources are looked up by id only (their getters are documented as id lookups); the order of a "
                   "list that was replaced as a whole by a vector setter is not compared for that one step",
        quick=dict(cases=100, size=400, workers=16, timeout=600),
        thorough=dict(cases=1200, size=400, workers=16, timeout=14400),
        rule="tape -> program (harness/prog.hpp, profile Valid). Non-trivial: at least 3 successful creates, at least one successful delete/"
             "remove, and a member with a special name ('..', UUID-shaped, case/blank variant, UTF-8, '%', '.') was looked up. Distinct = hash of "
             "the decoded program.",
        assumptions=COMMON_ASSUME,
    ),
    "C12": dict(
        bin="h_tree", sub="c12", level="exploration",
        technique="rapidcheck-generated creation histories over several sessions (ids well-formed, distinct, stable after every step) and generated process schedules with a harness-owned clock (ids of all processes distinct)",
        level_text="(a) generated API programs with close+reopen steps: after every step every id in the file is a well-formed UUID, ids are "
                   "pairwise distinct, an entity seen before still has the id it had, and a new entity never receives an id that was used "
                   "earlier in this file; (b) generated schedules of 2-8 real processes whose start second is a generated value (the harness "
                   "executable defines time(), so equal / adjacent / distant start seconds are produced at will), created by exec or by fork "
                   "from a parent that has already created ids; all ids of all processes must be pairwise distinct and well-formed",
        level_note="distinctness of random ids is probabilistic: the check can show collisions, not their impossibility; only time() is faked",
        quick=dict(cases=300, size=300, workers=16, timeout=600),
        thorough=dict(cases=2500, size=300, workers=16, timeout=14400),
        rule="tape -> history (profile Valid, reopen steps) or schedule (process count, start seconds, exec or fork, ids per process). Non-"
             "trivial: history with at least 2 sessions and 3 creates; schedule with at least 2 processes sharing a start second, or forked "
             "after the parent created ids. Distinct = hash of the decoded case.",
        assumptions=COMMON_ASSUME + ["only time() is under the harness' control; other entropy sources are the real ones"],
    ),
    "C20": dict(
        bin="h_tree", sub="c20", level="exploration",
        technique="rapidcheck-generated section/source trees with metadata, source and link assignments and deletions; every search and back-reference query compared with a brute-force traversal of the file's snapshot",
        level_text="generated section and source trees (depth <= 5, branching <= 4, equal names in different parents, 3 types), entities with "
                   "metadata and source assignments in 1-2 blocks, section links, properties with shadowing names, 0-4 deletions, optional "
                   "reopen; then Section::findSections / Source::findSources (breadth-first order, exact list), File::findSections / "
                   "Block::findSources (multiset), all referring* queries with and without block argument, parentSource, parent, "
                   "inheritedProperties are compared with a brute-force evaluation on the snapshot; filters accept-all / id / name / type / id "
                   "set; depth limits 0..depth+1 and the unlimited default",
        level_note="depth conventions as documented and pinned by the suite: Section::findSections excludes the start (children = depth 1), "
                   "Source::findSources includes it (depth 0), File::findSections roots = depth 1, Block::findSources roots = depth 0; "
                   "findRelated is only required to return filter-satisfying sections other than the start, each once (the statement does "
                   "not define it further); type filters use alphanumeric types (the filter is a regex)",
        quick=dict(cases=150, size=1500, workers=16, timeout=600),
        thorough=dict(cases=4000, size=1500, workers=16, timeout=14400),
        rule="tape -> trees, assignments, deletions, 4-16 search queries and up to 8 back-reference query groups. Non-trivial: a search "
             "with a depth limit strictly inside a subtree of depth >= 3 whose filter matched nodes on at least 2 levels, in a file that "
             "went through at least one deletion. Distinct = hash of the decoded shape (names, link pattern) and operations.",
        assumptions=COMMON_ASSUME,
    ),
    "C09": dict(
        bin="h_tree", sub="c09", level="exploration",
        technique="rapidcheck-generated files and call programs: ReadOnly session checked byte-for-byte and differentially against a ReadWrite twin (must-throw rule); mode matrix on present/absent paths; header defects injected with the HDF5 C API",
        level_text="(a) a generated file is opened ReadOnly and 3-27 generated calls of every mutator kind are applied: after each call the "
                   "snapshot and the bytes (whole file compared) are unchanged, and when the same call changes a ReadWrite byte copy of the "
                   "file the ReadOnly call must have thrown; (b) ReadWrite on the existing file shows the prior snapshot, ReadWrite / "
                   "Overwrite on an absent path and Overwrite on an existing file give an empty valid file (format, version, UUID id, no "
                   "blocks/sections) that reopens, ReadOnly on an absent path throws and creates nothing; (c) 14 classes of header defects "
                   "(format missing / wrong string / wrong type, version missing / wrong length / wrong type, id missing, combinations, plain "
                   "HDF5, empty, text, truncated, signature + garbage): ReadOnly and ReadWrite open must throw, the refused ReadOnly open leaves "
                   "the bytes alone, Overwrite still yields an empty valid file; both compression defaults",
        level_note="must-throw is decided by the twin: a call that has no effect on a ReadWrite copy (setting the value already stored, "
                   "removing something absent) carries no obligation; updated_at is not part of the snapshot but is part of the bytes",
        quick=dict(cases=400, size=600, workers=16, timeout=600),
        thorough=dict(cases=8000, size=600, workers=16, timeout=14400),
        rule="tape -> {session | modes | header defect}. Non-trivial: a ReadOnly session on a file with at least 6 entities in which at least "
             "5 distinct kinds of effective mutators were refused; a mode case on a file with at least 4 entities; every header defect case. "
             "Distinct = hash of the decoded case.",
        assumptions=COMMON_ASSUME,
    ),
    "C11": dict(
        bin="h_tree", sub="c11", level="fault_enumeration",
        technique="generated histories with an injected SIGKILL of the writing process at a generated flush/close boundary (fork per case) compared with the snapshot the writer saw; close() with generated sets of live handles checked through HDF5's open-object count, stale-handle calls and an Overwrite open",
        level_text="fault = death of the writing process without any exit handler. Per case the harness forks; the child runs 1-4 program "
                   "segments, each ended by flush() or close(), and kills itself (SIGKILL) at a generated one of these boundaries after "
                   "recording the snapshot it saw there; the parent opens the file ReadOnly, ReadWrite and Overwrite (copies) and through a "
                   "third process and requires exactly the recorded snapshot. Second part: 0-12 live handles (block, array, the four "
                   "dimension kinds, tag, feature, multi tag, group, source, section, property, data frame, data view, File copy) across "
                   "close(): no file/group/dataset/attribute may remain open in the process, reading and mutating calls on the stale "
                   "handles must throw, the bytes must not change, Overwrite must succeed",
        level_note="covers the death of the process (what the statement says), not of the operating system; a crash between a modification "
                   "and the next flush has no required outcome and is not generated; flush() returning false carries no obligation",
        quick=dict(cases=300, size=600, workers=16, timeout=600),
        thorough=dict(cases=4000, size=600, workers=16, timeout=14400),
        rule="tape -> {crash case | handles case}. Non-trivial: a kill right after a flush that followed at least 1 successful delete/"
             "unlink and 3 creates; a close with live handles of at least 3 different kinds. Distinct = hash of the decoded case.",
        assumptions=COMMON_ASSUME + ["SIGKILL of the writer models 'killed without running any exit handler'; the page cache survives by construction of the OS"],
    ),
    "C16": dict(
        bin="h_tree", sub="c16", level="exploration", engine="libfuzzer-tape",
        technique="coverage-guided fuzzing (libFuzzer) and rapidcheck over one structure-aware decoder of API programs with valid, boundary and invalid arguments, executed under ASan + UBSan; every call must return or throw",
        level_text="programs of 6-75 calls over the whole public API: the mutating steps of the program generator with invalid arguments of every "
                   "class, interleaved with misuse steps (index getters at / past the end and at 2^64-1, raw and typed reads / writes with "
                   "wrong ranks, offsets and counts outside the data, absurd sizes, other element types, never-written data, DataView "
                   "windows and requests, tagged / feature / slice retrieval with arbitrary vectors, position conversion with NaN / inf / "
                   "huge values, data frame access past rows and columns, uninitialised handles, handles to deleted entities, odd names, "
                   "unit strings, validation, search functions), and handles used after close(). The same decoder is driven by rapidcheck "
                   "(16 processes) and by libFuzzer (bytes = tape words; half of the processes start from an empty corpus, half from the "
                   "committed seed inputs). Oracle: no ASan / UBSan report, no signal, no abort - only C++ exceptions; the file closes and "
                   "reopens afterwards",
        level_note="only crash- / leak- artifacts count, oom- / timeout- / slow-unit- are load noise and listed; libFuzzer runs are only "
                   "approximately reproducible from the seed, the saved input (converted to a tape and replayed 3x) is the reproducible unit; "
                   "sizes are small or absurd so that memory pressure is never the signal; -DNDEBUG as shipped",
        quick=dict(cases=120, size=500, workers=16, timeout=700),
        thorough=dict(cases=2500, size=500, workers=16, timeout=14400),
        fuzz=dict(bin="fz_api", max_len=4096, quick=dict(procs=8, runs=2000), thorough=dict(procs=16, runs=20000)),
        rule="tape -> program. Non-trivial (counted on the rapidcheck side, libFuzzer executions are counted in evaluations and by its "
             "coverage counters): at least one out-of-contract data / retrieval / frame call reached the backend and at least one call "
             "threw. Distinct = hash of the decoded program.",
        assumptions=COMMON_ASSUME + ["undefined behaviour that neither sanitizer can see (e.g. reads of uninitialised memory) is not detected"],
    ),
    "C08": dict(
        bin="h_tree", sub="c08", level="exploration",
        technique="rapidcheck-generated API programs with invalid arguments; complete observable state (snapshot) compared before/after every call that threw",
        level_text="generated programs of 5-80 public API calls over all entity kinds in which about a third of the calls carry one invalid "
                   "argument of a class named in the property (duplicate/empty/slash name, empty type, target in another block / another "
                   "file / deleted / uninitialised, wrong rank, offset outside the data, unsorted ticks, non-SI unit, non-positive interval, "
                   "unsupported element type, mixed/wrong value types, row out of range, unknown id); whenever a call throws, the snapshot of "
                   "the whole file (and of the foreign file) must equal the snapshot taken before the call",
        level_note="one step of a program is exactly one mutating API call; a call that does not throw is outside this property; the snapshot "
                   "reads everything through public getters (updated_at excluded)",
        quick=dict(cases=200, size=400, workers=16, timeout=600),
        thorough=dict(cases=2500, size=400, workers=16, timeout=14400),
        rule="tape -> program (see harness/prog.hpp, profile Reject). Non-trivial: at least one call was rejected in a state with at least 4 "
             "entities. The evidence lists per rejection class how many rejected calls were checked. Distinct = hash of the decoded program.",
        assumptions=COMMON_ASSUME,
    ),
    "C02": dict(
        bin="h_tree", sub="c02", level="exploration",
        technique="rapidcheck-generated API programs; snapshot before close compared with ReadOnly reopen, ReadWrite reopen and a reopen by another process",
        level_text="generated programs of 5-80 in-contract API calls over all entity kinds (create, modify, link, unlink, delete, nested sources "
                   "and sections, data, dimensions, properties, frames, flush) with reopen points inside the history; at every reopen point and "
                   "at the end the snapshot taken before close() must equal the snapshot after a ReadOnly reopen, after a ReadWrite reopen and "
                   "(40% of the cases) the snapshot printed by a freshly started process",
        level_note="snapshot = every getter of every entity incl. all stored data, ids, created_at, links and order; updated_at excluded",
        quick=dict(cases=200, size=400, workers=16, timeout=600),
        thorough=dict(cases=2500, size=400, workers=16, timeout=14400),
        rule="tape -> program (profile Valid). Non-trivial: at least one successful delete/unlink, entities of at least 4 kinds besides the file, "
             "and at least one link alive at the final close. Distinct = hash of the decoded program.",
        assumptions=COMMON_ASSUME,
    ),
    "C04": dict(
        bin="h_tree", sub="c04", level="exploration",
        technique="rapidcheck-generated API programs; after every successful delete the snapshot must equal prune(previous snapshot, victim)",
        level_text="generated programs with linking (references, features, positions/extents, group members, sources, metadata, section links, "
                   "data-frame dimensions; also across reopen) and deletes of every entity kind by name, id or handle; after each successful "
                   "delete the new snapshot must equal the old one with the victim (and its subtree) removed and every link to a removed id "
                   "gone - nothing else may differ - and the handle held from before reports itself invalid",
        level_note="prune is a pure function on the snapshot tree; deleteDimensions has no victim id and is covered by C13",
        quick=dict(cases=150, size=400, workers=16, timeout=600),
        thorough=dict(cases=2000, size=400, workers=16, timeout=14400),
        rule="tape -> program (profile Valid). Non-trivial: a victim that was referenced by holders of at least 2 different kinds, or whose "
             "subtree holds at least 3 entities. Distinct = hash of the decoded program.",
        assumptions=COMMON_ASSUME,
    ),
}
