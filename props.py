# props.py - per property configuration of the driver (binary, budgets, evidence texts)
COMMON_ASSUME = [
    "the sanitised build (clang -O1, ASan+UBSan, -DNDEBUG, -ffp-contract=off) behaves like the shipped library",
    "HDF5 1.10.8 and the file system (tmpfs under /dev/shm) work as documented",
    "exploration only: the property held on the generated cases, absence of violations elsewhere is not shown",
]

PROPS = {
    "C10": dict(
        bin="h_misc", sub="c10", level="exploration", enum=True,
        technique="exhaustive enumeration of the version cube plus rapidcheck-generated triples against the stated gate and order laws",
        level_text="every triple of the cube around the library version x both modes x Force on/off is opened and compared with "
                   "the statement (exhaustive), all pairs of the cube are checked for the ordering laws, and random/extreme "
                   "triples are generated on top; for the unbounded rest of the integers this is exploration",
        level_note="the version attribute is rewritten with the HDF5 C API; the library version is read from a freshly created file",
        enum_text="cube [lib-2,lib+2]^3 x {ReadOnly,ReadWrite} x {None,Force} (500 opens), 8 extreme values per component, "
                  "ordering laws for all 15625 ordered pairs of the cube",
        quick=dict(cases=1500, size=40, workers=16, timeout=900),
        thorough=dict(cases=70000, size=40, workers=16, timeout=7200),
        rule="tape -> (x,y,z) near the library version / extreme / arbitrary int, mode, Force flag; the version attribute "
             "of a valid file is rewritten with the HDF5 C API and File::open is compared with the statement; or three "
             "triples for the ordering laws. Non-trivial: the two modes or Force/None differ in outcome for the triple; "
             "laws: three pairwise different triples sharing a major version. Distinct = hash of the decoded case.",
        assumptions=COMMON_ASSUME + ["the library's own format version is read from a file it has just created"],
    ),
}
